import BornoModel.Token
/-!
# Expect — the hand-written tables the model and the theorems are stated over

`Gen/Facts.lean` is regenerated from `/repo` on every run; `Tie.lean` proves
`Gen.X = Expect.X` for each table here.  Names are code-point lists because two keywords
contain U+09DF, which is not NFC-stable and must never pass through a normalising editor.
-/
namespace Borno.Expect

def cps (l : List Nat) : List Char := l.map Char.ofNat

/-- `lexer/scanner.go: keywords` — 15 entries -/
def keywordsCp : List (List Nat × TT) := [
  ([0x09AB, 0x09BE, 0x0982, 0x09B6, 0x09A8], .FUN),
  ([0x09A7, 0x09B0, 0x09BF], .VAR),
  ([0x09AB, 0x09B0], .FOR),
  ([0x09AF, 0x09A6, 0x09BF], .IF),
  ([0x09A8, 0x09BE, 0x09B9, 0x09DF], .ELSE),
  ([0x09AF, 0x09A4, 0x0995, 0x09CD, 0x09B7, 0x09A3], .WHILE),
  ([0x09B8, 0x09A4, 0x09CD, 0x09AF], .TRUE),
  ([0x09AE, 0x09BF, 0x09A5, 0x09CD, 0x09AF, 0x09BE], .FALSE),
  ([0x006E, 0x0069, 0x006C], .NIL),
  ([0x09A6, 0x09C7, 0x0996, 0x09BE, 0x0993], .PRINT),
  ([0x09AB, 0x09C7, 0x09B0, 0x09A4], .RETURN),
  ([0x09A5, 0x09BE, 0x09AE, 0x09CB], .BREAK),
  ([0x099A, 0x09BE, 0x09B2, 0x09BF, 0x09DF, 0x09C7, 0x005F, 0x09AF, 0x09BE, 0x0993], .CONTINUE),
  ([0x098F, 0x09AC, 0x0982], .LOGICAL_AND),
  ([0x09AC, 0x09BE], .LOGICAL_OR)]

def keywords : List (List Char × TT) := keywordsCp.map fun (k, t) => (cps k, t)

/-- characters that are a complete token on their own -/
def singleOps : List (Char × TT) := [
  ('(', .LEFT_PAREN), (')', .RIGHT_PAREN), ('{', .LEFT_BRACE), ('}', .RIGHT_BRACE),
  ('[', .LEFT_BRACKET), (']', .RIGHT_BRACKET), (',', .COMMA), ('.', .DOT), ('-', .MINUS),
  (':', .COLON), ('+', .PLUS), (';', .SEMICOLON), ('^', .XOR), ('~', .NOT), ('%', .MODULO)]

/-- first character, then the (second character ↦ type) alternatives tried in order, then the
    one-character fallback -/
def twoOps : List (Char × List (Char × TT) × TT) := [
  ('|', [('|', .LOGICAL_OR)], .OR),
  ('&', [('&', .LOGICAL_AND)], .AND),
  ('*', [('*', .POWER)], .STAR),
  ('!', [('=', .BANG_EQUAL)], .BANG),
  ('=', [('=', .EQUAL_EQUAL)], .EQUAL),
  ('<', [('=', .LESS_EQUAL), ('<', .LEFT_SHIFT)], .LESS),
  ('>', [('=', .GREATER_EQUAL), ('>', .RIGHT_SHIFT)], .GREATER)]

/-- blanks skipped without effect -/
def blanks : List Char := [' ', '\r', '\t']

/-- `isDigit`: inclusive code-point ranges -/
def digitRanges : List (Nat × Nat) := [(0x30, 0x39), (0x09E6, 0x09EF)]

/-- `utils.ConvertBanglaDigitsToASCII`: replacement map -/
def digitMap : List (Nat × Nat) := [
  (0x09E6, 0x30), (0x09E7, 0x31), (0x09E8, 0x32), (0x09E9, 0x33), (0x09EA, 0x34),
  (0x09EB, 0x35), (0x09EC, 0x36), (0x09ED, 0x37), (0x09EE, 0x38), (0x09EF, 0x39)]

/-- `parser/parser.go: reservedIdentifiers` -/
def reservedCp : List (List Nat) := [
  [0x0995, 0x09CD, 0x09B2, 0x0995],
  [0x09B2, 0x09C7, 0x09A8],
  [0x098F, 0x09A1],
  [0x09B0, 0x09BF, 0x09AE, 0x09C1, 0x09AD],
  [0x0995, 0x09BF, 0x005F, 0x09B0, 0x09BF, 0x09AE, 0x09C1, 0x09AD],
  [0x0985, 0x09AC, 0x09CD, 0x099C, 0x09C7, 0x0995, 0x09CD, 0x099F, 0x005F, 0x0995, 0x09BF],
  [0x0985, 0x09AC, 0x09CD, 0x099C, 0x09C7, 0x0995, 0x09CD, 0x099F, 0x005F, 0x09AE, 0x09BE, 0x09A8],
  [0x09AA, 0x09B0, 0x09AE, 0x09AE, 0x09BE, 0x09A8],
  [0x09AC, 0x09B0, 0x09CD, 0x0997, 0x09AE, 0x09C2, 0x09B2],
  [0x0998, 0x09BE, 0x09A4],
  [0x09B8, 0x09BE, 0x0987, 0x09A8],
  [0x0995, 0x09B8, 0x09BE, 0x0987, 0x09A8],
  [0x099F, 0x09CD, 0x09AF, 0x09BE, 0x09A8],
  [0x09B8, 0x09B0, 0x09CD, 0x09AC, 0x09A8, 0x09BF, 0x09AE, 0x09CD, 0x09A8],
  [0x09B8, 0x09B0, 0x09CD, 0x09AC, 0x09CB, 0x099A, 0x09CD, 0x099A],
  [0x09B0, 0x09BE, 0x0989, 0x09A8, 0x09CD, 0x09A1],
  [0x0069, 0x006E, 0x0070, 0x0075, 0x0074],
  [0x0987, 0x09A8, 0x09AA, 0x09C1, 0x099F]]

def reserved : List (List Char) := reservedCp.map cps

/-- the built-ins -/
inductive Native
  | clock | len | append | remove | delete | keys | values
  | abs | sqrt | pow | sin | cos | tan | min | max | round | input
  deriving DecidableEq, Repr, Inhabited

/-- `NewInterpreter`: name ↦ (Go type, built-in, `Arity()`; -1 = variadic) -/
def nativesCp : List (List Nat × String × Native × Int) := [
  ([0x0995, 0x09CD, 0x09B2, 0x0995], "NativeClockFn", .clock, 0),
  ([0x09B2, 0x09C7, 0x09A8], "NativeLenFn", .len, 1),
  ([0x098F, 0x09A1], "NativeAppendFn", .append, -1),
  ([0x09B0, 0x09BF, 0x09AE, 0x09C1, 0x09AD], "NativeRemoveFn", .remove, 2),
  ([0x0995, 0x09BF, 0x005F, 0x09B0, 0x09BF, 0x09AE, 0x09C1, 0x09AD], "NativeDeleteFn", .delete, 2),
  ([0x0985, 0x09AC, 0x09CD, 0x099C, 0x09C7, 0x0995, 0x09CD, 0x099F, 0x005F, 0x0995, 0x09BF], "NativeKeysFn", .keys, 1),
  ([0x0985, 0x09AC, 0x09CD, 0x099C, 0x09C7, 0x0995, 0x09CD, 0x099F, 0x005F, 0x09AE, 0x09BE, 0x09A8], "NativeValuesFn", .values, 1),
  ([0x09AA, 0x09B0, 0x09AE, 0x09AE, 0x09BE, 0x09A8], "NativeAbsFn", .abs, 1),
  ([0x09AC, 0x09B0, 0x09CD, 0x0997, 0x09AE, 0x09C2, 0x09B2], "NativeSqrtFn", .sqrt, 1),
  ([0x0998, 0x09BE, 0x09A4], "NativePowFn", .pow, 2),
  ([0x09B8, 0x09BE, 0x0987, 0x09A8], "NativeSinFn", .sin, 1),
  ([0x0995, 0x09B8, 0x09BE, 0x0987, 0x09A8], "NativeCosFn", .cos, 1),
  ([0x099F, 0x09CD, 0x09AF, 0x09BE, 0x09A8], "NativeTanFn", .tan, 1),
  ([0x09B8, 0x09B0, 0x09CD, 0x09AC, 0x09A8, 0x09BF, 0x09AE, 0x09CD, 0x09A8], "NativeMinFn", .min, -1),
  ([0x09B8, 0x09B0, 0x09CD, 0x09AC, 0x09CB, 0x099A, 0x09CD, 0x099A], "NativeMaxFn", .max, -1),
  ([0x09B0, 0x09BE, 0x0989, 0x09A8, 0x09CD, 0x09A1], "NativeRoundFn", .round, 1),
  ([0x0987, 0x09A8, 0x09AA, 0x09C1, 0x099F], "NativeInputFn", .input, -1)]

def natives : List (List Char × Native) := nativesCp.map fun (k, _, n, _) => (cps k, n)

def arity (n : Native) : Int :=
  match nativesCp.find? (fun e => e.2.2.1 == n) with
  | some e => e.2.2.2
  | none => 0

/-- what `String()` of a built-in prints -/
def nativeShow : Native → String
  | .clock => "<native fn>"
  | .len => "<native fn len>"
  | .append => "<native fn append>"
  | .remove => "<native fn remove>"
  | .delete => "<native fn delete>"
  | .keys => "<native fn keys>"
  | .values => "<native fn values>"
  | .abs => "<native fn abs>"
  | .sqrt => "<native fn sqrt>"
  | .pow => "<native fn pow>"
  | .sin => "<native fn sin>"
  | .cos => "<native fn cos>"
  | .tan => "<native fn tan>"
  | .min => "<native fn min>"
  | .max => "<native fn max>"
  | .round => "<native fn round>"
  | .input => "<native fn input>"

/-! ## the published precedence ladder (`grammer.txt`, README "Core Grammar") -/

inductive NodeKind | logical | binary deriving DecidableEq, Repr

/-- one left-associative binary level: operators and the node it builds; level `i`'s operands
    are parsed by level `i+1`, the last level's by `unary` -/
structure Level where
  name : String
  ops : List TT
  node : NodeKind
  deriving DecidableEq, Repr

def ladder : List Level := [
  ⟨"logicalOR", [.LOGICAL_OR], .logical⟩,
  ⟨"logicalAnd", [.LOGICAL_AND], .logical⟩,
  ⟨"bitwiseOR", [.OR], .binary⟩,
  ⟨"bitwiseXOR", [.XOR], .binary⟩,
  ⟨"bitwiseAND", [.AND], .binary⟩,
  ⟨"equality", [.BANG_EQUAL, .EQUAL_EQUAL], .binary⟩,
  ⟨"comparison", [.GREATER, .GREATER_EQUAL, .LESS, .LESS_EQUAL], .binary⟩,
  ⟨"shift", [.LEFT_SHIFT, .RIGHT_SHIFT], .binary⟩,
  ⟨"term", [.MINUS, .PLUS], .binary⟩,
  ⟨"factor", [.SLASH, .STAR, .MODULO], .binary⟩,
  ⟨"power", [.POWER], .binary⟩]

def unaryOps : List TT := [.BANG, .MINUS, .NOT]

/-- exit statuses of `main.go` -/
def exitUsage : Nat := 64
def exitRead : Nat := 1
def exitSyntax : Nat := 65
def exitRuntime : Nat := 70

def maxParams : Nat := 255

end Borno.Expect

namespace Borno.Expect

/-! ## expectations about code shape (compared with the regenerated facts in `Tie.lean`) -/

/-- the `scanToken` cases that are not plain operator cases, as normalised source text -/
def otherCases : List (String × String) := [
  ("47", "{ if s.match('/') { for s.peek() != '\\n' && !s.isAtEnd() { s.advance() } } else if s.match('*') { s.multilineComment() } else { s.addToken(token.SLASH) } }"),
  ("10", "{ s.line++ }"),
  ("34", "{ s.stringLiteral() }"),
  ("default", "{ if isDigit(c) { s.number() } else if isAlpha(c) { s.identifier() } else { utils.GlobalError(s.line, \"Unexpected character.\") } }")]

def isAlphaBody : String := "{ return unicode.IsLetter(r) || unicode.IsMark(r) || r == '_' }"
def isAlphaNumericBody : String := "{ return isAlpha(c) || isDigit(c) }"

def logicalNode : String := "ast.Logical{Left: expr, Operator: operator, Right: right}"
def binaryNode : String := "ast.Binary{Left: expr, Operator: operator, Right: right, Line: operator.Line}"

/-- what `factgen` must find for the ladder: (function, operand callee, loop kind, operator
    token types, right-operand callee, node built) -/
def ladderFacts : List (String × String × String × List String × String × String) :=
  let names := ladder.map (·.name) ++ ["unary"]
  (ladder.zip (names.drop 1)).map fun (l, next) =>
    (l.name, next, "for", l.ops.map TT.name, next,
      match l.node with
      | .logical => logicalNode
      | .binary => binaryNode)

/-- documented ladder (`grammer.txt`, বাংলা section): operator sets per level, top to bottom -/
def docOps : List (List String) := ladder.map fun l => l.ops.map TT.name

/-- README "Core Grammar" shows a shortened ladder: these levels, in this order -/
def readmeLevels : List String := ["logicalOR", "logicalAnd", "equality", "comparison", "term", "factor", "power"]

def exits : List (String × String) :=
  [("main", toString exitUsage), ("main", toString exitUsage), ("runFile", toString exitRead),
   ("runFile", toString exitSyntax), ("runFile", toString exitRuntime)]

def maxParamsTest : String := ">= 255"

def arityText : Int → String
  | 0 => "0" | 1 => "1" | 2 => "2" | _ => "-1"

end Borno.Expect
