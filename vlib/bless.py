# bless: copy the current regenerated inventories / source fingerprints into the committed
# expectations (ExpectInv.lean, TieDigests.lean).  Run by hand after reviewing a change to /repo
# or to the model; never run by a check.
import os, re, sys
from .core import ROOT

LEAN = os.path.join(ROOT, 'lean', 'BornoModel')

def parse_defs(path):
    src = open(path, encoding='utf-8').read()
    defs = {}
    for m in re.finditer(r'^def (\w+) : ([^\n]*?) := (.*)$', src, flags=re.M):
        defs[m.group(1)] = (m.group(2), m.group(3))
    return defs

def sanitize(s):
    return re.sub(r'\W', '_', s)

def main():
    d = parse_defs(os.path.join(LEAN, 'Gen', 'Facts.lean'))
    with open(os.path.join(LEAN, 'ExpectInv.lean'), 'w', encoding='utf-8') as f:
        f.write('/-! Expected inventories (blessed copy of what `factgen` found when the model was written;\n'
                '    reviewed by hand: every site is guarded in the model or total — see DESIGN.md) -/\n')
        f.write('namespace Borno.Expect\n')
        for k in ('panicSites', 'rangeMapSites', 'nondetSites'):
            ty, val = d[k]
            f.write(f'def {k} : {ty} := {val}\n')
        f.write('end Borno.Expect\n')
    with open(os.path.join(LEAN, 'TieDigests.lean'), 'w', encoding='utf-8') as f:
        f.write('import BornoModel.Gen.Facts\n')
        f.write('/-! Source fingerprints: the normalised text of every modelled Go function (and of every\n'
                '    case of `eval`) is the text the hand-written model was written against.  One theorem\n'
                '    per function, so that a change is named. Blessed by `python3 -m vlib.bless`. -/\n')
        f.write('namespace Borno.TieDigests\nopen Borno\n')
        for group in ('evalCases', 'interpreterDigests', 'parserDigests', 'lexerDigests', 'environmentDigests', 'utilsDigests', 'mainDigests'):
            ty, val = d[group]
            pairs = re.findall(r'\("((?:[^"\\]|\\.)*)", "((?:[^"\\]|\\.)*)"\)', val)
            names = ', '.join('"%s"' % n for n, _ in pairs)
            f.write(f'theorem names_{group} : Gen.{group}.map Prod.fst = [{names}] := by decide\n')
            for n, dg in pairs:
                f.write(f'theorem {group}_{sanitize(n)} : Gen.{group}.lookup "{n}" = some "{dg}" := by decide\n')
        f.write('end Borno.TieDigests\n')
    print('blessed')

def snapshot():
    """copy of the reviewed Go sources under another module path (blessed/borno): the reference the differential
    fuzzer compares /repo with after a fingerprint has changed (harness/difffuzz)"""
    import shutil
    repo = '/repo'
    dst = os.path.join(ROOT, 'blessed', 'borno')
    shutil.rmtree(dst, ignore_errors=True)
    for pkg in ('ast', 'environment', 'interpreter', 'lexer', 'parser', 'token', 'utils'):
        os.makedirs(os.path.join(dst, pkg), exist_ok=True)
        for fn in sorted(os.listdir(os.path.join(repo, pkg))):
            if fn.endswith('.go') and not fn.endswith('_test.go'):
                src = open(os.path.join(repo, pkg, fn), encoding='utf-8').read()
                open(os.path.join(dst, pkg, fn), 'w', encoding='utf-8').write(src.replace('github.com/ah-naf/borno/', 'blessedborno/'))
    gomod = open(os.path.join(repo, 'go.mod'), encoding='utf-8').read().replace('module github.com/ah-naf/borno', 'module blessedborno')
    open(os.path.join(dst, 'go.mod'), 'w', encoding='utf-8').write(gomod)
    shutil.copyfile(os.path.join(repo, 'go.sum'), os.path.join(dst, 'go.sum'))
    print('snapshot written to', dst)

if __name__ == '__main__':
    main()
    snapshot()
