/-!
# F64 — IEEE-754 binary64 as an executable specification over exact rationals

The Go implementation computes with the host's `float64`.  Lean's `Float` is opaque to the
kernel, so the model *defines* binary64 arithmetic here: a finite double is `±m·2^e` in
canonical form, every operation is "compute exactly in `Rat`, then round to nearest, ties to
even".  That this definition agrees with the host CPU / Go's `strconv` and `fmt` is tied by the
correspondence check (mode `num` of the driver), not proved.
-/
namespace Borno

/-- canonical finite: `m < 2^53`, `-1074 ≤ e ≤ 971`, `m ≥ 2^52 ∨ e = -1074` -/
inductive F64
  | nan
  | inf (neg : Bool)
  | fin (neg : Bool) (m : Nat) (e : Int)
  deriving DecidableEq, Repr, Inhabited

namespace F64

def pow2 (e : Int) : Rat :=
  if e ≥ 0 then ((2 ^ e.toNat : Nat) : Rat) else 1 / ((2 ^ (-e).toNat : Nat) : Rat)

def pow10 (k : Int) : Rat :=
  if k ≥ 0 then ((10 ^ k.toNat : Nat) : Rat) else 1 / ((10 ^ (-k).toNat : Nat) : Rat)

def zero (neg : Bool := false) : F64 := .fin neg 0 (-1074)

def isNaN : F64 → Bool | .nan => true | _ => false
def isInf : F64 → Bool | .inf _ => true | _ => false
def isZero : F64 → Bool | .fin _ 0 _ => true | _ => false
def signBit : F64 → Bool | .nan => false | .inf n => n | .fin n _ _ => n

/-- exact value of a finite double -/
def toRat : F64 → Rat
  | .fin neg m e => (if neg then -1 else 1) * (m : Rat) * pow2 e
  | _ => 0

/-- round a positive rational to the nearest double, ties to even; overflow → inf -/
def roundPos (neg : Bool) (q : Rat) : F64 :=
  let n := q.num.toNat
  let d := q.den
  let e0 : Int := (Nat.log2 n : Int) - (Nat.log2 d : Int) - 52
  let fl (e : Int) : Nat := if e ≥ 0 then n / (d * 2 ^ e.toNat) else (n * 2 ^ (-e).toNat) / d
  let e1 := if fl e0 ≥ 2 ^ 53 then e0 + 1 else if fl e0 < 2 ^ 52 then e0 - 1 else e0
  let e := if e1 < -1074 then -1074 else e1
  let num : Nat := if e ≥ 0 then n else n * 2 ^ (-e).toNat
  let den : Nat := if e ≥ 0 then d * 2 ^ e.toNat else d
  let m := num / den
  let r := num % den
  let m' := if 2 * r > den then m + 1 else if 2 * r < den then m else (if m % 2 = 0 then m else m + 1)
  let m'' := if m' = 2 ^ 53 then 2 ^ 52 else m'
  let e' := if m' = 2 ^ 53 then e + 1 else e
  if e' > 971 then .inf neg else .fin neg m'' e'

/-- nearest double of a rational; a zero result takes the sign `negZero` -/
def ofRat (q : Rat) (negZero : Bool := false) : F64 :=
  if q = 0 then zero negZero else if q > 0 then roundPos false q else roundPos true (-q)

def ofInt (i : Int) : F64 := ofRat (i : Rat)
def ofNat (n : Nat) : F64 := ofRat (n : Rat)

def neg : F64 → F64
  | .nan => .nan
  | .inf n => .inf (!n)
  | .fin n m e => .fin (!n) m e

def abs : F64 → F64
  | .nan => .nan
  | .inf _ => .inf false
  | .fin _ m e => .fin false m e

def add : F64 → F64 → F64
  | .nan, _ => .nan
  | _, .nan => .nan
  | .inf a, .inf b => if a = b then .inf a else .nan
  | .inf a, .fin .. => .inf a
  | .fin .., .inf b => .inf b
  | x@(.fin a _ _), y@(.fin b _ _) =>
    let s := x.toRat + y.toRat
    -- exact zero sum: -0 only when both operands are negative zeros / same-sign zeros
    ofRat s (a && b)

def sub (x y : F64) : F64 := add x (neg y)

def mul : F64 → F64 → F64
  | .nan, _ => .nan
  | _, .nan => .nan
  | .inf a, .inf b => .inf (a != b)
  | .inf a, y@(.fin b _ _) => if y.isZero then .nan else .inf (a != b)
  | x@(.fin a _ _), .inf b => if x.isZero then .nan else .inf (a != b)
  | x@(.fin a _ _), y@(.fin b _ _) =>
    let p := x.toRat * y.toRat
    -- a product that underflows to zero keeps the xor sign
    match ofRat p (a != b) with
    | .fin _ 0 e => .fin (a != b) 0 e
    | r => r

def div : F64 → F64 → F64
  | .nan, _ => .nan
  | _, .nan => .nan
  | .inf _, .inf _ => .nan
  | .inf a, .fin b _ _ => .inf (a != b)
  | .fin a _ _, .inf b => zero (a != b)
  | x@(.fin a _ _), y@(.fin b _ _) =>
    if y.isZero then (if x.isZero then .nan else .inf (a != b))
    else
      match ofRat (x.toRat / y.toRat) (a != b) with
      | .fin _ 0 e => .fin (a != b) 0 e
      | r => r

/-- Go `math.Mod` (C `fmod`): exact, result has the sign of `x` -/
def mod : F64 → F64 → F64
  | .nan, _ => .nan
  | _, .nan => .nan
  | .inf _, _ => .nan
  | x@(.fin ..), .inf _ => x
  | x@(.fin a _ _), y@(.fin ..) =>
    if y.isZero then .nan
    else
      let qx := x.toRat
      let qy := y.toRat
      let ax := if qx < 0 then -qx else qx
      let ay := if qy < 0 then -qy else qy
      let k := (ax / ay).floor
      let r := ax - (k : Rat) * ay
      ofRat (if a then -r else r) a

def lt : F64 → F64 → Bool
  | .nan, _ => false
  | _, .nan => false
  | .inf a, .inf b => a && !b
  | .inf a, .fin .. => a
  | .fin .., .inf b => !b
  | x, y => decide (x.toRat < y.toRat)

def beq : F64 → F64 → Bool
  | .nan, _ => false
  | _, .nan => false
  | .inf a, .inf b => a == b
  | .inf _, .fin .. => false
  | .fin .., .inf _ => false
  | x, y => decide (x.toRat = y.toRat)

def le (x y : F64) : Bool := lt x y || beq x y
def gt (x y : F64) : Bool := lt y x
def ge (x y : F64) : Bool := le y x

/-- Go `math.Round`: half away from zero; keeps the sign of zero results -/
def round : F64 → F64
  | .nan => .nan
  | .inf n => .inf n
  | x@(.fin n _ _) =>
    let q := x.toRat
    let a := if q < 0 then -q else q
    let r := (a + 1/2).floor
    ofRat (if n then -(r : Rat) else (r : Rat)) n

/-- Go `math.Sqrt`: correctly rounded -/
def sqrt : F64 → F64
  | .nan => .nan
  | .inf n => if n then .nan else .inf false
  | x@(.fin n m e) =>
    if m = 0 then x
    else if n then .nan
    else
      -- m·2^e with e even after adjustment; scale so the integer root has ≥ 54 bits, plus a sticky bit
      let (m1, e1) : Nat × Int := if e % 2 = 0 then (m, e) else (m * 2, e - 1)
      let sh : Nat := 64            -- m1·2^(2·sh) : root gains sh bits
      let big := m1 * 2 ^ (2 * sh)
      let r := Nat.sqrt big
      let exact := r * r = big
      -- value = (r + δ)·2^(e1/2 - sh), δ∈[0,1); the sticky bit keeps rounding correct
      let num : Nat := 2 * r + (if exact then 0 else 1)
      ofRat ((num : Rat) * pow2 (e1 / 2 - sh - 1))

/-- the integer a double denotes, when it is one -/
def toInt? : F64 → Option Int
  | .fin n m e =>
    let q := (F64.fin n m e).toRat
    if q.den = 1 then some q.num else none
  | _ => none

/-- Go on amd64: `float64(int64(v)) == v` ⇔ `v` integral and `-2^63 ≤ v < 2^63` -/
def toInt64? (x : F64) : Option Int :=
  match x.toInt? with
  | some i => if -(2 ^ 63 : Int) ≤ i ∧ i < (2 ^ 63 : Int) then some i else none
  | none => none

/-! ### bits (for the driver protocol) -/

def toBits : F64 → Nat
  | .nan => 0x7FF8000000000001
  | .inf n => (if n then 2 ^ 63 else 0) + 0x7FF0000000000000
  | .fin n m e =>
    let s : Nat := if n then 2 ^ 63 else 0
    if m < 2 ^ 52 then s + m
    else s + (e + 1075).toNat * 2 ^ 52 + (m - 2 ^ 52)

def ofBits (b : Nat) : F64 :=
  let n := b / 2 ^ 63 % 2 == 1
  let ex : Nat := b / 2 ^ 52 % 2048
  let fr : Nat := b % 2 ^ 52
  if ex == 2047 then (if fr == 0 then .inf n else .nan)
  else if ex == 0 then .fin n fr (-1074)
  else .fin n (fr + 2 ^ 52) ((ex : Int) - 1075)

/-! ### decimal / hexadecimal text → double (Go `strconv.ParseFloat(s, 64)`) -/

def isDec (c : Char) : Bool := '0' ≤ c && c ≤ '9'
def decVal (c : Char) : Nat := c.toNat - '0'.toNat
def lower (c : Char) : Char := if 'A' ≤ c && c ≤ 'Z' then Char.ofNat (c.toNat + 32) else c
def isHex (c : Char) : Bool := isDec c || ('a' ≤ lower c && lower c ≤ 'f')
def hexVal (c : Char) : Nat := if isDec c then decVal c else (lower c).toNat - 'a'.toNat + 10

/-- digits (base 10 or 16) with optional single point and underscores; returns
    mantissa, number of fractional digits, whether a digit was seen, whether an underscore was seen, rest -/
def readMant (hex : Bool) : List Char → Nat → Nat → Bool → Bool → Bool → Bool →
    (Nat × Nat × Bool × Bool × List Char)
  | [], m, fd, _, _, sawDigit, us => (m, fd, sawDigit, us, [])
  | c :: cs, m, fd, sawDot, _x, sawDigit, us =>
    if c = '_' then readMant hex cs m fd sawDot _x sawDigit true
    else if c = '.' then
      if sawDot then (m, fd, sawDigit, us, c :: cs) else readMant hex cs m fd true _x sawDigit us
    else if (if hex then isHex c else isDec c) then
      let v := if hex then hexVal c else decVal c
      readMant hex cs (m * (if hex then 16 else 10) + v) (if sawDot then fd + 1 else fd) sawDot _x true us
    else (m, fd, sawDigit, us, c :: cs)

/-- exponent digits with underscores, capped like strconv (`e < 10000`) -/
def readExpDigits : List Char → Nat → Bool → Bool → (Nat × Bool × Bool × List Char)
  | [], e, saw, us => (e, saw, us, [])
  | c :: cs, e, saw, us =>
    if c = '_' then readExpDigits cs e saw true
    else if isDec c then readExpDigits cs (if e < 10000 then e * 10 + decVal c else e) true us
    else (e, saw, us, c :: cs)

/-- strconv.underscoreOK -/
def underscoreOK (s : List Char) : Bool :=
  let s := match s with
    | c :: r => if c = '-' || c = '+' then r else s
    | [] => s
  let (hex, pre, body) : Bool × Bool × List Char := match s with
    | '0' :: c :: r =>
      if lower c = 'b' || lower c = 'o' || lower c = 'x' then (lower c = 'x', true, r) else (false, false, s)
    | _ => (false, false, s)
  -- saw: 0 = '^', 1 = digit, 2 = underscore, 3 = other
  let rec go : List Char → Nat → Bool
    | [], saw => saw != 2
    | c :: r, saw =>
      if isDec c || (hex && 'a' ≤ lower c && lower c ≤ 'f') then go r 1
      else if c = '_' then (if saw != 1 then false else go r 2)
      else if saw = 2 then false
      else go r 3
  go body (if pre then 1 else 0)

def eqFold (a b : List Char) : Bool := a.map lower == b.map lower

inductive ParseRes
  | ok (x : F64)
  | range          -- syntactically fine, overflows: ParseFloat returns ±Inf with ErrRange
  | syntax
  deriving DecidableEq, Repr

/-- `strconv.ParseFloat(s, 64)` -/
def parseFloat (s : List Char) : ParseRes :=
  -- special values
  let (sgn, body) : Bool × List Char := match s with
    | '+' :: r => (false, r)
    | '-' :: r => (true, r)
    | _ => (false, s)
  let signed := body.length != s.length
  if eqFold body "inf".toList || eqFold body "infinity".toList then .ok (.inf sgn)
  else if !signed && eqFold s "nan".toList then .ok .nan
  else
    let (hex, digits) : Bool × List Char := match body with
      | '0' :: c :: r => if lower c = 'x' then (true, r) else (false, body)
      | _ => (false, body)
    let (m, fd, sawDigit, us1, rest) := readMant hex digits 0 0 false false false false
    if !sawDigit then .syntax
    else
      -- exponent
      let expChar : Char := if hex then 'p' else 'e'
      let r : Option (Int × Bool × List Char) := match rest with
        | [] => if hex then none else some (0, false, [])
        | c :: r1 =>
          if lower c = expChar then
            let (esgn, r2) : Bool × List Char := match r1 with
              | '+' :: t => (false, t)
              | '-' :: t => (true, t)
              | _ => (false, r1)
            let (e, saw, us2, r3) := readExpDigits r2 0 false false
            if !saw then none else some ((if esgn then -(e : Int) else (e : Int)), us2, r3)
          else none
      match r with
      | none => .syntax
      | some (ex, us2, r3) =>
        if !r3.isEmpty then .syntax
        else if (us1 || us2) && !underscoreOK s then .syntax
        else
          let q : Rat :=
            if hex then (m : Rat) * pow2 (ex - 4 * (fd : Int))
            else (m : Rat) * pow10 (ex - (fd : Int))
          match ofRat q sgn with
          | .inf _ => .range
          | .fin _ mm ee => .ok (.fin sgn mm ee)
          | .nan => .syntax

/-! ### double → text (`fmt` verb `%v`, i.e. `strconv.FormatFloat(x, 'g', -1, 64)` with the
`%e` form iff the decimal exponent is `< -4` or `≥ 6` (the shortest-precision rule of `%g`) -/

/-- rounding interval of a positive finite double: (lower, upper, inclusive) -/
def interval (m : Nat) (e : Int) : Rat × Rat × Bool :=
  let x : Rat := (m : Rat) * pow2 e
  let upper := x + pow2 e / 2
  let lower := if m = 2 ^ 52 ∧ e > -1074 then x - pow2 e / 4 else x - pow2 e / 2
  (lower, upper, m % 2 = 0)

/-- decimal exponent `k` with `10^k ≤ x < 10^(k+1)`, by bounded search from an estimate -/
def dexpGo (x : Rat) : Nat → Int → Int
  | 0, k => k
  | f + 1, k =>
    if x < pow10 k then dexpGo x f (k - 1)
    else if x ≥ pow10 (k + 1) then dexpGo x f (k + 1)
    else k

def dexp (x : Rat) : Int :=
  let est : Int := (((Nat.log2 x.num.toNat : Int) - (Nat.log2 x.den : Int)) * 30103) / 100000
  dexpGo x 8 est

def normDigits (c n : Nat) (dp : Int) : Nat × Nat × Int :=
  if c = 10 ^ n then (10 ^ (n - 1), n, dp + 1) else (c, n, dp)

/-- shortest digits that round-trip: `(digits, count, dp)` meaning `0.d₁…dₙ × 10^dp` -/
def shortestGo (x lo hi : Rat) (incl : Bool) (k : Int) : Nat → Nat → Nat × Nat × Int
  | 0, _ => (0, 0, 0)
  | f + 1, n =>
    let sc := pow10 ((n : Int) - 1 - k)
    let t := x * sc
    let dn := t.floor.toNat
    let up := dn + 1
    let vdn : Rat := (dn : Rat) / sc
    let vup : Rat := (up : Rat) / sc
    let okdn := if incl then vdn ≥ lo else vdn > lo
    let okup := if incl then vup ≤ hi else vup < hi
    if (dn : Rat) = t then (dn, n, k + 1)
    else if okdn && okup then
      let frac := t - (dn : Rat)
      let c := if frac > 1/2 then up else if frac < 1/2 then dn else (if dn % 2 = 0 then dn else up)
      normDigits c n (k + 1)
    else if okdn then (dn, n, k + 1)
    else if okup then normDigits up n (k + 1)
    else shortestGo x lo hi incl k f (n + 1)

def shortest (m : Nat) (e : Int) : Nat × Nat × Int :=
  let x : Rat := (m : Rat) * pow2 e
  let (lo, hi, incl) := interval m e
  shortestGo x lo hi incl (dexp x) 18 1

def stripZerosGo : Nat → Nat → Nat → Nat × Nat
  | 0, d, n => (d, n)
  | f + 1, d, n => if d % 10 = 0 && n > 1 then stripZerosGo f (d / 10) (n - 1) else (d, n)

def stripZeros (d n : Nat) : Nat × Nat := if d = 0 then (0, 1) else stripZerosGo 20 d n

def natDigits (n : Nat) : List Char := (toString n).toList

def padLeft (s : List Char) (n : Nat) : List Char := List.replicate (n - s.length) '0' ++ s

/-- `fmt.Sprintf("%v", x)` for a float64 -/
def fmtV : F64 → List Char
  | .nan => "NaN".toList
  | .inf n => if n then "-Inf".toList else "+Inf".toList
  | .fin n m e =>
    let sign : List Char := if n then ['-'] else []
    if m = 0 then sign ++ ['0'] else
    let (d0, n0, dp) := shortest m e
    let (d, cnt) := stripZeros d0 n0
    let ds := padLeft (natDigits d) cnt
    let x := dp - 1
    if x < -4 || x ≥ 6 then
      let mant := if cnt = 1 then ds else ds.take 1 ++ ['.'] ++ ds.drop 1
      let ax := x.natAbs
      sign ++ mant ++ ['e'] ++ (if x < 0 then ['-'] else ['+']) ++ (if ax < 10 then ['0'] else []) ++ natDigits ax
    else if dp ≤ 0 then sign ++ "0.".toList ++ List.replicate (-dp).toNat '0' ++ ds
    else if dp.toNat ≥ cnt then sign ++ ds ++ List.replicate (dp.toNat - cnt) '0'
    else sign ++ ds.take dp.toNat ++ ['.'] ++ ds.drop dp.toNat

end F64
end Borno
