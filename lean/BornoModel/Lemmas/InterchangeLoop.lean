import BornoModel.Lemmas.Interchange
/-! # Interchange under loops: a condition that is re-evaluated arbitrarily often -/
namespace Borno
variable (P : Platform)

theorem whileLoop_stable (f f' : Nat) (hf : f ≤ f') (c : Expr) (b : Stmt) (env : Nat) (repl : Bool) (σ : Store)
    (h : whileLoop P f c b env repl σ ≠ .abn .fuel) : whileLoop P f' c b env repl σ = whileLoop P f c b env repl σ :=
  stable_of_le (fun f => whileLoop P f c b env repl σ) (fun f => (mono P f).w c b env repl σ) f f' hf h

/-- whatever the loop with test `c` answers, the loop with an agreeing test `c'` answers too -/
theorem while_transfer {c c' : Expr} (h : EvEq P c c') {b b' : Stmt} (hbb : EvS P b b') (env : Nat) (repl : Bool) :
    ∀ (f : Nat) (σ : Store) (r : ER), whileLoop P f c b env repl σ = r → r ≠ .abn .fuel →
      ∃ g, whileLoop P g c' b' env repl σ = r := by
  intro f
  induction f with
  | zero => intro σ r hr hne; rw [whileLoop] at hr; exact absurd hr.symm hne
  | succ f ih =>
    intro σ r hr hne
    rw [whileLoop] at hr
    obtain ⟨F0, h0⟩ := h env repl σ
    -- the test at σ
    cases hc : evalE P f c env repl σ with
    | abn x =>
      rw [hc] at hr
      have hx : x ≠ .fuel := by intro e; subst e; exact hne (by rw [← hr]; rfl)
      have hst : ∀ G, f ≤ G → evalE P G c env repl σ = .abn x := fun G hG => by
        rw [evalE_stable P f G hG c env repl σ (by rw [hc]; intro e; cases e; exact hx rfl), hc]
      refine ⟨max f F0 + 1, ?_⟩
      rw [whileLoop, ← h0 _ (by omega), hst _ (by omega), ← hr]; rfl
    | ok p σ1 =>
      rw [hc] at hr
      have hst : ∀ G, f ≤ G → evalE P G c env repl σ = .ok p σ1 := fun G hG => by
        rw [evalE_stable P f G hG c env repl σ (by simp [hc]), hc]
      by_cases hp : p.2 ≠ .none
      · refine ⟨max f F0 + 1, ?_⟩
        rw [whileLoop, ← h0 _ (by omega), hst _ (by omega), ← hr]
        simp [ER.seq, Res.bind, hp]
      · simp only [ER.seq, Res.bind, hp, if_false] at hr
        cases ht : (!truthy p.1) with
        | true =>
          simp only [ht, if_true] at hr
          refine ⟨max f F0 + 1, ?_⟩
          rw [whileLoop, ← h0 _ (by omega), hst _ (by omega), ← hr]
          simp [ER.seq, Res.bind, hp, ht]
        | false =>
          simp only [ht, Bool.false_eq_true, if_false] at hr
          obtain ⟨F1, h1⟩ := hbb env repl σ1
          cases hb : evalS P f b env repl σ1 with
          | abn x =>
            rw [hb] at hr
            have hx : x ≠ .fuel := by intro e; subst e; exact hne (by rw [← hr])
            have hsb : ∀ G, f ≤ G → evalS P G b env repl σ1 = .abn x := fun G hG => by
              rw [evalS_stable P f G hG b env repl σ1 (by rw [hb]; intro e; cases e; exact hx rfl), hb]
            obtain ⟨G, hG1, hG2, hG4⟩ : ∃ G, f ≤ G ∧ F0 ≤ G ∧ F1 ≤ G := ⟨max (max f F0) F1, by omega, by omega, by omega⟩
            refine ⟨G + 1, ?_⟩
            rw [whileLoop, ← h0 _ hG2, hst _ hG1, ← hr]
            simp [ER.seq, Res.bind, hp, ht, ← h1 _ hG4, hsb _ hG1]
          | ok q σ2 =>
            rw [hb] at hr
            have hsb : ∀ G, f ≤ G → evalS P G b env repl σ1 = .ok q σ2 := fun G hG => by
              rw [evalS_stable P f G hG b env repl σ1 (by simp [hb]), hb]
            simp only [Res.bind] at hr
            cases hq : q.2 with
            | brk l =>
              simp only [hq] at hr
              obtain ⟨G, hG1, hG2, hG4⟩ : ∃ G, f ≤ G ∧ F0 ≤ G ∧ F1 ≤ G := ⟨max (max f F0) F1, by omega, by omega, by omega⟩
              refine ⟨G + 1, ?_⟩
              rw [whileLoop, ← h0 _ hG2, hst _ hG1, ← hr]
              simp [ER.seq, Res.bind, hp, ht, ← h1 _ hG4, hsb _ hG1, hq]
            | ret l v =>
              simp only [hq] at hr
              obtain ⟨G, hG1, hG2, hG4⟩ : ∃ G, f ≤ G ∧ F0 ≤ G ∧ F1 ≤ G := ⟨max (max f F0) F1, by omega, by omega, by omega⟩
              refine ⟨G + 1, ?_⟩
              rw [whileLoop, ← h0 _ hG2, hst _ hG1, ← hr]
              simp [ER.seq, Res.bind, hp, ht, ← h1 _ hG4, hsb _ hG1, hq]
            | none =>
              simp only [hq] at hr
              obtain ⟨g2, hg2⟩ := ih σ2 r hr hne
              have hsw : ∀ G, g2 ≤ G → whileLoop P G c' b' env repl σ2 = r := fun G hG => by
                rw [whileLoop_stable P g2 G hG c' b' env repl σ2 (by rw [hg2]; exact hne), hg2]
              obtain ⟨G, hG1, hG2, hG3, hG4⟩ : ∃ G, f ≤ G ∧ F0 ≤ G ∧ g2 ≤ G ∧ F1 ≤ G := ⟨max (max (max f F0) g2) F1, by omega, by omega, by omega, by omega⟩
              refine ⟨G + 1, ?_⟩
              rw [whileLoop, ← h0 _ hG2, hst _ hG1]
              simp [ER.seq, Res.bind, hp, ht, ← h1 _ hG4, hsb _ hG1, hq, hsw _ hG3]
            | cont l =>
              simp only [hq] at hr
              obtain ⟨g2, hg2⟩ := ih σ2 r hr hne
              have hsw : ∀ G, g2 ≤ G → whileLoop P G c' b' env repl σ2 = r := fun G hG => by
                rw [whileLoop_stable P g2 G hG c' b' env repl σ2 (by rw [hg2]; exact hne), hg2]
              obtain ⟨G, hG1, hG2, hG3, hG4⟩ : ∃ G, f ≤ G ∧ F0 ≤ G ∧ g2 ≤ G ∧ F1 ≤ G := ⟨max (max (max f F0) g2) F1, by omega, by omega, by omega, by omega⟩
              refine ⟨G + 1, ?_⟩
              rw [whileLoop, ← h0 _ hG2, hst _ hG1]
              simp [ER.seq, Res.bind, hp, ht, ← h1 _ hG4, hsb _ hG1, hq, hsw _ hG3]


/-- two budget-indexed computations that are monotone and answer the same whenever one of them answers coincide eventually -/
theorem ev2_of_transfer {α : Type} (X X' : Nat → Res α) (hX : ∀ f, (X f).le (X (f + 1))) (hX' : ∀ f, (X' f).le (X' (f + 1)))
    (t : ∀ f, X f ≠ .abn .fuel → ∃ g, X' g = X f) (t' : ∀ f, X' f ≠ .abn .fuel → ∃ g, X g = X' f) : Ev2 X X' := by
  by_cases hall : ∀ F, X F = .abn .fuel
  · refine ⟨0, fun F _ => ?_⟩
    rw [hall F]
    by_cases hF : X' F = .abn .fuel
    · exact hF.symm
    · obtain ⟨g, hg⟩ := t' F hF
      rw [hall g] at hg; exact absurd hg.symm hF
  · obtain ⟨f, hf⟩ := Classical.not_forall.1 hall
    obtain ⟨g, hg⟩ := t f hf
    refine ⟨max f g, fun F hF => ?_⟩
    rw [stable_of_le X hX f F (by omega) hf, stable_of_le X' hX' g F (by omega) (by rw [hg]; exact hf), hg]

theorem EvS.symm {s s' : Stmt} (h : EvS P s s') : EvS P s' s := fun env repl σ =>
  let ⟨F0, h0⟩ := h env repl σ; ⟨F0, fun F hF => (h0 F hF).symm⟩
theorem EvS.refl (s : Stmt) : EvS P s s := fun _ _ _ => Ev2.refl _

theorem evS_while {c c' : Expr} (h : EvEq P c c') {b b' : Stmt} (hb : EvS P b b') : EvS P (.whileS c b) (.whileS c' b') := by
  intro env repl σ
  refine ev2_of_succ ?_
  simp only [evalS]
  refine ev2_guard ?_
  exact ev2_of_transfer _ _ (fun f => (mono P f).w c b env repl σ) (fun f => (mono P f).w c' b' env repl σ)
    (fun f hf => while_transfer P h hb env repl f σ _ rfl hf)
    (fun f hf => while_transfer P (EvEq.symm P h) (EvS.symm P hb) env repl f σ _ rfl hf)


/-! ## the `ফর` loop: test, increment and body -/

inductive OptEv : Option Expr → Option Expr → Prop
  | none : OptEv none none
  | some {e e' : Expr} : EvEq P e e' → OptEv (some e) (some e')

theorem OptEv.symm {a b : Option Expr} (h : OptEv P a b) : OptEv P b a := by
  cases h with
  | none => exact .none
  | some h => exact .some (EvEq.symm P h)

theorem OptEv.refl (a : Option Expr) : OptEv P a a := by
  cases a with
  | none => exact .none
  | some e => exact .some (EvEq.refl P e)

theorem forLoop_stable (f f' : Nat) (hf : f ≤ f') (c : Expr) (inc : Option Expr) (b : Stmt) (env : Nat) (repl : Bool) (σ : Store)
    (h : forLoop P f c inc b env repl σ ≠ .abn .fuel) : forLoop P f' c inc b env repl σ = forLoop P f c inc b env repl σ :=
  stable_of_le (fun f => forLoop P f c inc b env repl σ) (fun f => (mono P f).fl c inc b env repl σ) f f' hf h

/-- what follows the body in one round -/
def forTail (f : Nat) (c : Expr) (inc : Option Expr) (b : Stmt) (env : Nat) (repl : Bool) (σ2 : Store) : ER :=
  match inc with
  | none => forLoop P f c inc b env repl σ2
  | some ie => (evalE P f ie env repl σ2).seq fun _ σ3 => forLoop P f c inc b env repl σ3

theorem forLoop_succ (f : Nat) (c : Expr) (inc : Option Expr) (b : Stmt) (env : Nat) (repl : Bool) (σ : Store) :
    forLoop P (f + 1) c inc b env repl σ =
      (evalE P f c env repl σ).seq fun cv σ1 =>
        if !truthy cv then nilOk σ1
        else (evalS P f b env repl σ1).bind fun p σ2 =>
          match p.2 with
          | .brk _ => nilOk σ2
          | .ret l v => .ok (.nil, .ret l v) σ2
          | _ => forTail P f c inc b env repl σ2 := by
  rw [forLoop]; rfl

theorem forTail_transfer {c c' : Expr} {inc inc' : Option Expr} (hi : OptEv P inc inc') {b b' : Stmt} (env : Nat) (repl : Bool) (f : Nat)
    (ih : ∀ (σ : Store) (r : ER), forLoop P f c inc b env repl σ = r → r ≠ .abn .fuel → ∃ g, forLoop P g c' inc' b' env repl σ = r)
    (σ2 : Store) (r : ER) (hr : forTail P f c inc b env repl σ2 = r) (hne : r ≠ .abn .fuel) :
    ∃ g, ∀ G, g ≤ G → forTail P G c' inc' b' env repl σ2 = r := by
  cases hi with
  | none =>
    simp only [forTail] at hr ⊢
    obtain ⟨g, hg⟩ := ih σ2 r hr hne
    exact ⟨g, fun G hG => by rw [forLoop_stable P g G hG c' none b' env repl σ2 (by rw [hg]; exact hne), hg]⟩
  | @some ie ie' he =>
    simp only [forTail] at hr ⊢
    obtain ⟨F0, h0⟩ := he env repl σ2
    cases hc : evalE P f ie env repl σ2 with
    | abn x =>
      rw [hc] at hr
      have hx : x ≠ .fuel := by intro e; subst e; exact hne (by rw [← hr]; rfl)
      refine ⟨max f F0, fun G hG => ?_⟩
      rw [← h0 G (by omega), evalE_stable P f G (by omega) ie env repl σ2 (by rw [hc]; intro e; cases e; exact hx rfl), hc, ← hr]; rfl
    | ok p σ3 =>
      rw [hc] at hr
      have hst : ∀ G, f ≤ G → evalE P G ie env repl σ2 = .ok p σ3 := fun G hG => by
        rw [evalE_stable P f G hG ie env repl σ2 (by simp [hc]), hc]
      by_cases hp : p.2 ≠ .none
      · refine ⟨max f F0, fun G hG => ?_⟩
        rw [← h0 G (by omega), hst G (by omega), ← hr]
        simp [ER.seq, Res.bind, hp]
      · simp only [ER.seq, Res.bind, hp, if_false] at hr
        obtain ⟨g, hg⟩ := ih σ3 r hr hne
        refine ⟨max (max f F0) g, fun G hG => ?_⟩
        rw [← h0 G (by omega), hst G (by omega)]
        simp only [ER.seq, Res.bind, hp, if_false]
        rw [forLoop_stable P g G (by omega) c' (some ie') b' env repl σ3 (by rw [hg]; exact hne), hg]

theorem for_transfer {c c' : Expr} (h : EvEq P c c') {inc inc' : Option Expr} (hi : OptEv P inc inc') {b b' : Stmt} (hbb : EvS P b b')
    (env : Nat) (repl : Bool) :
    ∀ (f : Nat) (σ : Store) (r : ER), forLoop P f c inc b env repl σ = r → r ≠ .abn .fuel →
      ∃ g, forLoop P g c' inc' b' env repl σ = r := by
  intro f
  induction f with
  | zero => intro σ r hr hne; rw [forLoop] at hr; exact absurd hr.symm hne
  | succ f ih =>
    intro σ r hr hne
    rw [forLoop_succ] at hr
    obtain ⟨F0, h0⟩ := h env repl σ
    cases hc : evalE P f c env repl σ with
    | abn x =>
      rw [hc] at hr
      have hx : x ≠ .fuel := by intro e; subst e; exact hne (by rw [← hr]; rfl)
      have hst : ∀ G, f ≤ G → evalE P G c env repl σ = .abn x := fun G hG => by
        rw [evalE_stable P f G hG c env repl σ (by rw [hc]; intro e; cases e; exact hx rfl), hc]
      refine ⟨max f F0 + 1, ?_⟩
      rw [forLoop_succ, ← h0 _ (by omega), hst _ (by omega), ← hr]; rfl
    | ok p σ1 =>
      rw [hc] at hr
      have hst : ∀ G, f ≤ G → evalE P G c env repl σ = .ok p σ1 := fun G hG => by
        rw [evalE_stable P f G hG c env repl σ (by simp [hc]), hc]
      by_cases hp : p.2 ≠ .none
      · refine ⟨max f F0 + 1, ?_⟩
        rw [forLoop_succ, ← h0 _ (by omega), hst _ (by omega), ← hr]
        simp [ER.seq, Res.bind, hp]
      · simp only [ER.seq, Res.bind, hp, if_false] at hr
        cases ht : (!truthy p.1) with
        | true =>
          simp only [ht, if_true] at hr
          refine ⟨max f F0 + 1, ?_⟩
          rw [forLoop_succ, ← h0 _ (by omega), hst _ (by omega), ← hr]
          simp [ER.seq, Res.bind, hp, ht]
        | false =>
          simp only [ht, Bool.false_eq_true, if_false] at hr
          obtain ⟨F1, h1⟩ := hbb env repl σ1
          cases hb : evalS P f b env repl σ1 with
          | abn x =>
            rw [hb] at hr
            have hx : x ≠ .fuel := by intro e; subst e; exact hne (by rw [← hr])
            have hsb : ∀ G, f ≤ G → evalS P G b env repl σ1 = .abn x := fun G hG => by
              rw [evalS_stable P f G hG b env repl σ1 (by rw [hb]; intro e; cases e; exact hx rfl), hb]
            obtain ⟨G, hG1, hG2, hG4⟩ : ∃ G, f ≤ G ∧ F0 ≤ G ∧ F1 ≤ G := ⟨max (max f F0) F1, by omega, by omega, by omega⟩
            refine ⟨G + 1, ?_⟩
            rw [forLoop_succ, ← h0 _ hG2, hst _ hG1, ← hr]
            simp [ER.seq, Res.bind, hp, ht, ← h1 _ hG4, hsb _ hG1]
          | ok q σ2 =>
            rw [hb] at hr
            have hsb : ∀ G, f ≤ G → evalS P G b env repl σ1 = .ok q σ2 := fun G hG => by
              rw [evalS_stable P f G hG b env repl σ1 (by simp [hb]), hb]
            simp only [Res.bind] at hr
            cases hq : q.2 with
            | brk l =>
              simp only [hq] at hr
              obtain ⟨G, hG1, hG2, hG4⟩ : ∃ G, f ≤ G ∧ F0 ≤ G ∧ F1 ≤ G := ⟨max (max f F0) F1, by omega, by omega, by omega⟩
              refine ⟨G + 1, ?_⟩
              rw [forLoop_succ, ← h0 _ hG2, hst _ hG1, ← hr]
              simp [ER.seq, Res.bind, hp, ht, ← h1 _ hG4, hsb _ hG1, hq]
            | ret l v =>
              simp only [hq] at hr
              obtain ⟨G, hG1, hG2, hG4⟩ : ∃ G, f ≤ G ∧ F0 ≤ G ∧ F1 ≤ G := ⟨max (max f F0) F1, by omega, by omega, by omega⟩
              refine ⟨G + 1, ?_⟩
              rw [forLoop_succ, ← h0 _ hG2, hst _ hG1, ← hr]
              simp [ER.seq, Res.bind, hp, ht, ← h1 _ hG4, hsb _ hG1, hq]
            | none =>
              simp only [hq] at hr
              obtain ⟨g2, hg2⟩ := forTail_transfer P hi env repl f ih σ2 r hr hne
              obtain ⟨G, hG1, hG2, hG3, hG4⟩ : ∃ G, f ≤ G ∧ F0 ≤ G ∧ g2 ≤ G ∧ F1 ≤ G := ⟨max (max (max f F0) g2) F1, by omega, by omega, by omega, by omega⟩
              refine ⟨G + 1, ?_⟩
              rw [forLoop_succ, ← h0 _ hG2, hst _ hG1]
              simp [ER.seq, Res.bind, hp, ht, ← h1 _ hG4, hsb _ hG1, hq, hg2 _ hG3]
            | cont l =>
              simp only [hq] at hr
              obtain ⟨g2, hg2⟩ := forTail_transfer P hi env repl f ih σ2 r hr hne
              obtain ⟨G, hG1, hG2, hG3, hG4⟩ : ∃ G, f ≤ G ∧ F0 ≤ G ∧ g2 ≤ G ∧ F1 ≤ G := ⟨max (max (max f F0) g2) F1, by omega, by omega, by omega, by omega⟩
              refine ⟨G + 1, ?_⟩
              rw [forLoop_succ, ← h0 _ hG2, hst _ hG1]
              simp [ER.seq, Res.bind, hp, ht, ← h1 _ hG4, hsb _ hG1, hq, hg2 _ hG3]

end Borno
