# Per-property configuration: which regenerated ties and source fingerprints a property's
# theorems rest on, and which campaign decides it on the implementation side.
import os, re
from . import camp_front as F
from . import camp_eval as E
from . import camp_cli as C

PARSER_LADDER = ['Parser.assignment', 'Parser.logicalOR', 'Parser.logicalAnd', 'Parser.bitwiseOR', 'Parser.bitwiseXOR', 'Parser.bitwiseAND',
                 'Parser.equality', 'Parser.comparison', 'Parser.shift', 'Parser.term', 'Parser.factor', 'Parser.power', 'Parser.unary',
                 'Parser.call', 'Parser.finishCall', 'Parser.primary', 'Parser.expression']
PARSER_STMT = ['Parser.Parse', 'Parser.declaration', 'Parser.varDeclaration', 'Parser.statement', 'Parser.forStatement', 'Parser.while',
               'Parser.IfStatement', 'Parser.printStatement', 'Parser.returnStatement', 'Parser.expressionStatement', 'Parser.function',
               'Parser.block', 'Parser.objectLiteral', 'Parser.arrayLiteral']
PARSER_PRIM = ['Parser.match', 'Parser.consume', 'Parser.error', 'Parser.check', 'Parser.advance', 'Parser.isAtEnd', 'Parser.peek', 'Parser.previous', 'NewParser']
LEXER_ALL = ['NewScanner', 'Scanner.AddToken', 'Scanner.ScanTokens', 'Scanner.addToken', 'Scanner.advance', 'Scanner.identifier', 'Scanner.isAtEnd',
             'Scanner.match', 'Scanner.multilineComment', 'Scanner.number', 'Scanner.peek', 'Scanner.peekNext', 'Scanner.scanToken',
             'Scanner.stringLiteral', 'isAlpha', 'isAlphaNumeric', 'isDigit']
ENV_ALL = ['Environment.Assign', 'Environment.Define', 'Environment.Get', 'Environment.GetInCurrentScope', 'NewEnvironment', 'NewEnvironmentWithParent']
OPS = ['evaluateBinary', 'evaluateUnary', 'handleAddition', 'handleArithmetic', 'handleBitwise', 'handleComparison', 'handleEquality',
       'isEqual', 'isTruthy', 'stringifyOperand', 'toInt64', 'toNumber']
NATIVES = ['Abs', 'Append', 'Clock', 'Cos', 'Delete', 'Input', 'Keys', 'Len', 'Max', 'Min', 'Pow', 'Remove', 'Round', 'Sin', 'Sqrt', 'Tan', 'Values']
ALL_EVAL = ['prologue', '*ast.PropertyAssignment', '*ast.ObjectLiteral', '*ast.PropertyAccess', '*ast.ArrayLiteral', '*ast.ArrayAccess',
            '*ast.ArrayAssignment', '*ast.FunctionStmt', '*ast.Return', '*ast.Call', '*ast.PrintStatement', '*ast.ExpressionStatement',
            '*ast.Literal', '*ast.Grouping', '*ast.Unary', '*ast.Binary', '*ast.VarStmt', '*ast.VarListStmt', '*ast.AssignmentStmt',
            '*ast.Identifier', '*ast.BlockStmt', '*ast.IfStmt', '*ast.Logical', '*ast.While', '*ast.ForStmt', '*ast.BreakStmt',
            '*ast.ContinueStmt', 'default']

def ev(*names):
    return ['evalCases:' + ('*ast.' + n if n not in ('prologue', 'default') else n) for n in names]
def it(*names):
    return ['interpreterDigests:' + n for n in names]
def pa(names):
    return ['parserDigests:' + n for n in names]
def lx(names):
    return ['lexerDigests:' + n for n in names]
def en(names):
    return ['environmentDigests:' + n for n in names]
def nat(*names):
    return ['interpreterDigests:Native%sFn.%s' % (n, m) for n in names for m in ('Call', 'Arity')]

def sanitize(s):
    return re.sub(r'\W', '_', s)

GROUPS = ['evalCases', 'interpreterDigests', 'parserDigests', 'lexerDigests', 'environmentDigests', 'utilsDigests', 'mainDigests']
_TIE_FILE = os.path.join(os.path.dirname(os.path.dirname(os.path.abspath(__file__))), 'lean', 'BornoModel', 'TieDigests.lean')

def group_ties(groups):
    """every fingerprint theorem of the given groups (inventory + one per function), read from TieDigests.lean"""
    out = []
    try:
        names = re.findall(r'^theorem (\w+)', open(_TIE_FILE, encoding='utf-8').read(), flags=re.M)
    except OSError:
        names = []
    for n in names:
        if any(n == 'names_' + g or n.startswith(g + '_') for g in groups):
            out.append(n)
    return out

def digest_ties(prop):
    """first the fingerprints of the functions the property's theorems speak about, then those of the rest of the
    pipeline its statement depends on (a program is text: whatever the lexer, the parser, the evaluator, the
    environment and the reporting do to it can change what the property observes)"""
    out = []
    for d in prop.get('digests', []):
        g, n = d.split(':', 1)
        out.append(f'{g}_{sanitize(n)}')
    for g in prop.get('digest_groups', []):
        out.append('names_' + g)
    for t in group_ties(prop.get('pipeline', [])):
        if t not in out:
            out.append(t)
    return out

PLATFORM_NOTE = 'pow / sin / cos / tan / clock are platform parameters of the model (compared on exactly representable cases only)'

PROPS = {
    'C01': {'scale': True, 'ties': ['tie_ladder', 'tie_docLadder', 'tie_readmeLadder', 'tie_tokenTypes'],
            'digests': pa(PARSER_LADDER + PARSER_PRIM + ['Parser.IfStatement', 'Parser.statement']), 'digest_groups': ['parserDigests'],
            'campaign': F.c01,
            'partial': ['"adding parentheses never changes what a program prints" is proved for whole programs outside function bodies (C18.redundant_parentheses_whole_program) and tested end to end there']},
    'C02': {'reexec': True, 'ties': ['tie_tokenTypes'], 'digests': it(*OPS) + ev('Binary', 'Unary') + it('toNumber', 'toInt64') + ['utilsDigests:ConvertBanglaDigitsToASCII'], 'campaign': E.c02,
            'partial': ['IEEE-754 exactness rests on the definitional F64 model tied to the host by correspondence', PLATFORM_NOTE]},
    'C03': {'twins': True, 'reexec': True, 'scale': True, 'volume': ['scopes', 'calls'], 'ties': [], 'digests': en(ENV_ALL) + ev('BlockStmt', 'ForStmt', 'VarStmt', 'VarListStmt', 'AssignmentStmt', 'Identifier', 'FunctionStmt') +
            it('Function.Call', 'Interpreter.Interpret', 'NewInterpreter'), 'digest_groups': ['environmentDigests'], 'campaign': E.c03},
    'C04': {'twins': True, 'reexec': True, 'scale': True, 'volume': ['calls', 'scopes'], 'ties': [], 'digests': it('Function.Call', 'Function.Arity', 'NewFunction') + en(ENV_ALL) +
            ev('Call', 'FunctionStmt', 'Return', 'While', 'ForStmt', 'IfStmt', 'BlockStmt'), 'campaign': E.c04},
    'C05': {'reexec': True, 'scale': True, 'volume': ['loops'], 'ties': [], 'digests': ev('IfStmt', 'While', 'ForStmt', 'BreakStmt', 'ContinueStmt', 'BlockStmt') + it('Interpreter.Interpret', 'isTruthy') + pa(['Parser.forStatement']),
            'campaign': E.c05},
    'C06': {'twins': True, 'reexec': True, 'ties': ['tie_exits'], 'digests': ['evalCases:' + n for n in ALL_EVAL] + it('Function.Call', 'Interpreter.Interpret', 'evaluateBinary', 'evaluateUnary') +
            ['utilsDigests:RuntimeError', 'mainDigests:runFile', 'mainDigests:run'] + en(['Environment.Assign']), 'digest_groups': ['evalCases'], 'campaign': E.c06},
    'C07': {'reexec': True, 'scale': True, 'volume': ['calls', 'scopes', 'loops', 'data'], 'ties': ['tie_panicSites'], 'digests': it(*OPS) + nat(*NATIVES) + it('Function.Call', 'sortedKeys', 'stringify') + ['evalCases:' + n for n in ALL_EVAL],
            'digest_groups': ['interpreterDigests', 'evalCases'], 'campaign': E.c07,
            'partial': ['goroutine stack exhaustion and memory exhaustion are runtime behaviours the model cannot exhibit (known findings)']},
    'C08': {'scale': True, 'ties': ['tie_reserved', 'tie_maxParams', 'tie_tokenTypes', 'tie_keywords', 'tie_singleOps', 'tie_twoOps', 'tie_otherCases', 'tie_ladder'],
            'digests': pa(PARSER_LADDER + PARSER_STMT + PARSER_PRIM) + lx(LEXER_ALL) + ['mainDigests:run', 'utilsDigests:GlobalError', 'utilsDigests:GlobalErrorToken', 'utilsDigests:report'],
            'digest_groups': ['parserDigests', 'lexerDigests'], 'campaign': F.c08,
            'partial': ['"the first diagnostic is at the first non-viable token": prefix determinism is by construction of the model; viability of the preceding prefix is checked by enumeration only']},
    'C09': {'scale': True, 'ties': ['tie_keywords', 'tie_singleOps', 'tie_twoOps', 'tie_blanks', 'tie_otherCases', 'tie_isAlpha', 'tie_tokenTypes', 'tie_digitRanges'],
            'digests': lx(LEXER_ALL) + ['utilsDigests:GlobalError', 'utilsDigests:report'], 'digest_groups': ['lexerDigests'], 'campaign': F.c09,
            'partial': ['unicode.IsLetter / IsMark are a parameter of the theorems; the driver uses the range tables extracted from the Go toolchain']},
    'C10': {'ties': ['tie_digitRanges', 'tie_digitMap'], 'digests': lx(['Scanner.number', 'isDigit', 'Scanner.peekNext', 'Scanner.AddToken']) + ['utilsDigests:ConvertBanglaDigitsToASCII'] + it('toNumber', 'toInt64'),
            'campaign': F.c10, 'partial': ['"nearest double" rests on the definitional F64.ofRat tied to strconv.ParseFloat by correspondence']},
    'C11': {'reexec': True, 'scale': True, 'ties': ['tie_natives', 'tie_arities'], 'digests': nat('Len', 'Append', 'Remove') + ev('ArrayLiteral', 'ArrayAccess', 'ArrayAssignment') + it('toInt64', 'isEqual'), 'campaign': E.c11},
    'C12': {'twins': True, 'reexec': True, 'scale': True, 'volume': ['data'], 'ties': ['tie_natives', 'tie_arities'], 'digests': nat('Delete', 'Keys', 'Values') + it('sortedKeys') + ev('ObjectLiteral', 'PropertyAccess', 'PropertyAssignment') + pa(['Parser.objectLiteral']), 'campaign': E.c12},
    'C13': {'reexec': True, 'scale': True, 'volume': ['data'], 'ties': ['tie_rangeMap', 'tie_nondet'], 'digests': it('sortedKeys', 'stringify') + nat('Keys', 'Values') + ev('ObjectLiteral') + pa(['Parser.objectLiteral']), 'campaign': E.c13,
            'partial': ['that the Go runtime randomises only map iteration (and fmt sorts map keys) is trusted knowledge of the runtime']},
    'C14': {'reexec': True, 'scale': True, 'ties': [], 'digests': ev('Binary', 'Unary', 'Logical', 'Call', 'ArrayLiteral', 'ObjectLiteral', 'ArrayAccess', 'ArrayAssignment', 'PropertyAssignment', 'PropertyAccess', 'AssignmentStmt', 'Grouping', 'IfStmt', 'While', 'ForStmt') + it('isTruthy'),
            'campaign': E.c14},
    'C15': {'reexec': True, 'scale': True, 'ties': [], 'digests': ev('PrintStatement', 'ExpressionStatement') + it('stringify', 'stringifyOperand', 'handleAddition', 'Function.String'), 'campaign': E.c15,
            'partial': ['NFC is x/text\'s (tables extracted, algorithm modelled); shortest-digit minimality is strconv\'s (tied by correspondence)']},
    'C16': {'reexec': True, 'ties': [], 'digests': lx(['Scanner.stringLiteral', 'Scanner.AddToken', 'Scanner.number']) + it(*OPS) + it('stringify', 'sortedKeys') + nat(*NATIVES) +
            ev('Literal', 'ArrayAccess', 'ArrayAssignment', 'PropertyAccess', 'PropertyAssignment', 'Binary', 'Unary', 'Logical', 'IfStmt', 'While', 'ForStmt', 'Call', 'PrintStatement',
               'ExpressionStatement', 'ArrayLiteral', 'ObjectLiteral', 'VarStmt', 'AssignmentStmt', 'Return', 'Grouping'),
            'digest_groups': ['interpreterDigests', 'evalCases'], 'campaign': E.c16},
    'C17': {'reexec': True, 'scale': True, 'ties': ['tie_natives', 'tie_arities'], 'digests': nat(*NATIVES) + it('NewInterpreter', 'toNumber') + ev('Call'), 'campaign': E.c17,
            'partial': [PLATFORM_NOTE + '; accuracy of the platform math library is neither modelled nor claimed', 'clock is checked against the wall clock only']},
    'C18': {'ties': ['tie_keywords', 'tie_twoOps', 'tie_digitMap', 'tie_digitRanges', 'tie_blanks', 'tie_otherCases'], 'digests': lx(LEXER_ALL) + en(ENV_ALL) + ev('Grouping') + pa(PARSER_LADDER + ['Parser.varDeclaration']),
            'campaign': E.c18, 'partial': ['renaming and dead-code invariance are decided by correspondence and metamorphic runs; the Lean theorems cover trivia insertion after any token (whole texts), digit script, synonyms and grouping']},
    'C19': {'scale': True, 'ties': ['tie_exits'], 'digests': ['mainDigests:main', 'mainDigests:run', 'mainDigests:runFile', 'mainDigests:runPrompt', 'utilsDigests:report', 'utilsDigests:RuntimeError', 'utilsDigests:GlobalError', 'utilsDigests:GlobalErrorToken'] + nat('Input'),
            'digest_groups': ['mainDigests', 'utilsDigests'], 'campaign': C.c19, 'partial': ['OS file errors and pipe buffering are runtime behaviours; the unreadable-file message is compared up to the OS part']},
    'C20': {'ties': [], 'digests': ['mainDigests:runPrompt', 'mainDigests:run', 'mainDigests:main'] + ev('ExpressionStatement') + it('NewInterpreter', 'Interpreter.Interpret'), 'campaign': C.c20,
            'partial': ['`ইনপুট` inside a REPL session shares buffered stdin with the prompt reader (runtime behaviour, not modelled)']},
}

# ---- the part of the source each property's statement depends on (all of it is fingerprinted on every run)
PIPE_LEX = ['lexerDigests', 'utilsDigests', 'mainDigests']      # main: how the text of a script file / a REPL line reaches the scanner
PIPE_FRONT = ['lexerDigests', 'parserDigests', 'utilsDigests', 'mainDigests']
for _pid, _p in PROPS.items():
    if _pid in ('C09', 'C10'):
        _p['pipeline'] = PIPE_LEX
    elif _pid in ('C01', 'C08'):
        _p['pipeline'] = PIPE_FRONT
    else:
        _p['pipeline'] = GROUPS
