package ast

import (
	"fmt"

	"blessedborno/token"
)

type Stmt interface {
	Expr
}

type ExpressionStatement struct {
	Expression Expr
}

// String method for ExpressionStatement
func (e *ExpressionStatement) String() string {
	return e.Expression.String() // Return string representation of the expression
}

type PrintStatement struct {
	Expression Expr
}

// String method for PrintStatement
func (p *PrintStatement) String() string {
	return fmt.Sprintf("(print %s)", p.Expression.String()) // Return string representation of print statement
}

type VarStmt struct {
	Name        token.Token
	Initializer Expr
	// VarUsed		bool
	Line int
}

func (v *VarStmt) String() string {
	return fmt.Sprintf("var %s = %v", v.Name.Lexeme, v.Initializer)
}

type VarListStmt struct {
	Declarations []VarStmt
}

func (v *VarListStmt) String() string {
	output := ""
	for _, varStmt := range v.Declarations {
		output += fmt.Sprintf("var %s = %v\n", varStmt.Name.Lexeme, varStmt.Initializer)
	}
	return output
}

type AssignmentStmt struct {
	Name  token.Token
	Value Expr
	Line  int
}

func (a *AssignmentStmt) String() string {
	return fmt.Sprintf("(%s = %s)", a.Name.Lexeme, a.Value.String())
}

type BlockStmt struct {
	Block []Stmt
}

func (b *BlockStmt) String() string {
	val := fmt.Sprintf("{\n")
	for _, statement := range b.Block {
		val += fmt.Sprintf("%s\n", statement.String())
	}
	val += fmt.Sprint("}")
	return val
}

type IfStmt struct {
	Condition  Expr
	ThenBranch Stmt
	ElseBranch Stmt
}

func (i *IfStmt) String() string {
	val := fmt.Sprintf("if (%s)", i.Condition)
	val += i.ThenBranch.String()
	if i.ElseBranch != nil {
		val += "else "
		val += i.ElseBranch.String()

	}
	return val
}

type While struct {
	Condition Expr
	Body      Stmt
}

func (w *While) String() string {
	val := fmt.Sprintf("while (%s)", w.Condition)
	val += w.Body.String()
	return val
}

type ForStmt struct {
	Condition   Expr
	Increment   Expr
	Initializer Stmt
	Body        Stmt
}

func (f *ForStmt) String() string {
	initializerStr := ""
	if f.Initializer != nil {
		initializerStr = f.Initializer.String()
	}

	conditionStr := ""
	if f.Condition != nil {
		conditionStr = f.Condition.String()
	}

	incrementStr := ""
	if f.Increment != nil {
		incrementStr = f.Increment.String()
	}

	bodyStr := ""
	if f.Body != nil {
		bodyStr = f.Body.String()
	}

	return fmt.Sprintf("for (%v; %v; %v) %v", initializerStr, conditionStr, incrementStr, bodyStr)
}

type BreakStmt struct {
	Line int
}

func (b *BreakStmt) String() string {
	return "break"
}

type ContinueStmt struct {
	Line int
}

func (b *ContinueStmt) String() string {
	return "continue"
}

type FunctionStmt struct {
	Name   token.Token
	Params []token.Token
	Body   []Stmt
}

func (f *FunctionStmt) String() string {
	// Convert the list of parameters to a comma-separated string
	paramNames := ""
	for i, param := range f.Params {
		if i != 0 {
			paramNames += ", "
		}
		paramNames += param.Lexeme
	}

	// Convert the body statements to a string
	bodyStr := ""
	for _, stmt := range f.Body {
		bodyStr += stmt.String() + "\n"
	}

	// Return the function's string representation
	return fmt.Sprintf("fun %s(%s) {\n%s}", f.Name.Lexeme, paramNames, bodyStr)
}


type ArrayAssignment struct {
	Array Expr   // The array being assigned to
	Index Expr   // The index of the element being assigned to
	Value Expr   // The new value being assigned
	Line  int    // The line number of the assignment
}

func (a *ArrayAssignment) String() string {
	return fmt.Sprintf("(%s[%s] = %s)", a.Array, a.Index, a.Value)
}

// PropertyAssignment represents assigning a value to an object's property.
type PropertyAssignment struct {
	Object   Expr
	Property token.Token
	Value    Expr
	Line     int
}

func (p *PropertyAssignment) String() string {
	return fmt.Sprintf("%s.%s = %s", p.Object.String(), p.Property.Lexeme, p.Value.String())
}