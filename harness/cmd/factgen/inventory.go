package main

import (
	"fmt"
	"go/ast"
	"go/importer"
	"go/parser"
	"go/token"
	"go/types"
	"os"
	"path/filepath"
	"strings"
)

// genInventory type-checks the repository's packages (offline, "source" importer) and lists
//   - every site whose host operation can panic (index, slice, unchecked type assertion,
//     interface ==, signed shift, integer division), with its enclosing function;
//   - every range over a map, and every use of a nondeterminism source (go statements, time, rand).
func genInventory(o *out, repo string) {
	var sites, ranges, nondet []string
	fs := token.NewFileSet()
	cwd, _ := os.Getwd()
	// the "source" importer shells out to the go command: with -mod=mod it would rewrite /repo/go.mod
	os.Setenv("GOFLAGS", "-mod=readonly")
	os.Chdir(repo)
	defer os.Chdir(cwd)
	for _, pkg := range []string{"lexer", "parser", "environment", "utils", "interpreter", "."} {
		var files []*ast.File
		m, _ := filepath.Glob(filepath.Join(repo, pkg, "*.go"))
		for _, f := range m {
			if strings.HasSuffix(f, "_test.go") || strings.HasSuffix(f, "verif_hooks.go") {
				continue
			}
			af, err := parser.ParseFile(fs, f, nil, 0)
			if err != nil {
				sites = append(sites, leanStr("unknown parse error "+f))
				continue
			}
			files = append(files, af)
		}
		conf := types.Config{Importer: importer.ForCompiler(fs, "source", nil), Error: func(err error) {}}
		info := &types.Info{Types: map[ast.Expr]types.TypeAndValue{}}
		name := "github.com/ah-naf/borno/" + pkg
		if pkg == "." {
			name = "main"
		}
		conf.Check(name, fs, files, info)
		pkgName := pkg
		if pkg == "." {
			pkgName = "main"
		}
		for _, f := range files {
			for _, d := range f.Decls {
				fd, ok := d.(*ast.FuncDecl)
				if !ok || fd.Body == nil {
					continue
				}
				fn := pkgName + "." + fd.Name.Name
				if fd.Recv != nil && len(fd.Recv.List) > 0 {
					t := fd.Recv.List[0].Type
					if st, ok := t.(*ast.StarExpr); ok {
						t = st.X
					}
					fn = pkgName + "." + render(t) + "." + fd.Name.Name
				}
				// assertions that are checked: v, ok := x.(T) and type switches
				checked := map[*ast.TypeAssertExpr]bool{}
				ast.Inspect(fd.Body, func(n ast.Node) bool {
					switch x := n.(type) {
					case *ast.AssignStmt:
						if len(x.Lhs) == 2 && len(x.Rhs) == 1 {
							if ta, ok := x.Rhs[0].(*ast.TypeAssertExpr); ok {
								checked[ta] = true
							}
						}
					case *ast.ValueSpec:
						if len(x.Names) == 2 && len(x.Values) == 1 {
							if ta, ok := x.Values[0].(*ast.TypeAssertExpr); ok {
								checked[ta] = true
							}
						}
					case *ast.TypeSwitchStmt:
						ast.Inspect(x.Assign, func(m ast.Node) bool {
							if ta, ok := m.(*ast.TypeAssertExpr); ok && ta.Type == nil {
								checked[ta] = true
							}
							return true
						})
					}
					return true
				})
				add := func(kind string, n ast.Node) {
					sites = append(sites, leanStr(fn+": "+kind+" "+render(n)))
				}
				ast.Inspect(fd.Body, func(n ast.Node) bool {
					switch x := n.(type) {
					case *ast.GoStmt:
						nondet = append(nondet, leanStr(fn+": go "+render(x.Call)))
					case *ast.CallExpr:
						f := render(x.Fun)
						if isNondetSource(f) {
							nondet = append(nondet, leanStr(fn+": "+f))
						}
					case *ast.RangeStmt:
						if t, ok := info.Types[x.X]; ok && t.Type != nil {
							if _, ok := t.Type.Underlying().(*types.Map); ok {
								ranges = append(ranges, leanStr(fn+": range "+render(x.X)))
							}
						}
					case *ast.IndexExpr:
						if t, ok := info.Types[x.X]; ok && t.Type != nil {
							switch t.Type.Underlying().(type) {
							case *types.Slice, *types.Array, *types.Basic:
								add("INDEX", x)
							}
						}
					case *ast.SliceExpr:
						add("SLICE", x)
					case *ast.TypeAssertExpr:
						if !checked[x] {
							add("ASSERT", x)
						}
					case *ast.BinaryExpr:
						if x.Op == token.EQL || x.Op == token.NEQ {
							if t, ok := info.Types[x.X]; ok && t.Type != nil {
								if _, ok := t.Type.Underlying().(*types.Interface); ok {
									if t2, ok := info.Types[x.Y]; ok && !t2.IsNil() {
										add("IFACE-EQ", x)
									}
								}
							}
						}
						if x.Op == token.SHL || x.Op == token.SHR {
							add("SHIFT", x)
						}
						if x.Op == token.QUO || x.Op == token.REM {
							if t, ok := info.Types[x.X]; ok && t.Type != nil {
								if b, ok := t.Type.Underlying().(*types.Basic); ok && b.Info()&types.IsInteger != 0 {
									add("INTDIV", x)
								}
							}
						}
					}
					return true
				})
			}
		}
	}
	o.p("def panicSites : List String := %s", list(sites))
	o.p("def rangeMapSites : List String := %s", list(ranges))
	o.p("def nondetSites : List String := %s", list(nondet))
	_ = fmt.Sprint
}

// isNondetSource: calls whose result can differ between two runs of the same program on the same input
// (wall clock, random numbers, the Go runtime's own state — heap size, goroutines, GC —, process and host identity,
// the environment, addresses, atomics and locks)
func isNondetSource(f string) bool {
	for _, p := range []string{"time.", "rand.", "runtime.", "debug.", "unsafe.", "atomic.", "sync.", "syscall.", "signal.", "reflect.", "maphash.", "os.Getpid", "os.Getppid", "os.Getenv", "os.LookupEnv", "os.Environ", "os.Hostname", "os.Getwd", "os.Getuid", "os.Executable", "os.TempDir", "os.UserHomeDir"} {
		if strings.HasPrefix(f, p) {
			return true
		}
	}
	return false
}
