# Statement coverage of /repo by a campaign (Go's own coverage counters), and — when source fingerprints are broken —
# which statements of the CHANGED functions the campaign executed.  A `no-failing-input-found` report then says more
# than "a hash changed": it names the changed functions and the blocks of them no input reached.
import os, re, shutil, subprocess
from .core import BUILD, ROOT, COVER
from .build import REPO, GOENV

MOD = 'github.com/ah-naf/borno/'
GROUP_DIR = {'interpreterDigests': 'interpreter', 'evalCases': 'interpreter', 'parserDigests': 'parser', 'lexerDigests': 'lexer',
             'environmentDigests': 'environment', 'utilsDigests': 'utils', 'mainDigests': ''}

def start():
    d = os.path.join(BUILD, 'cover', str(os.getpid()))
    shutil.rmtree(d, ignore_errors=True)
    os.makedirs(d, exist_ok=True)
    COVER['dir'] = d
    # Go's coverage runtime writes the meta-data file once per binary; processes that start at the same moment race
    # on its rename and complain on stderr.  One run of each instrumented binary alone, first, writes it.
    env = {'PATH': '/usr/bin:/bin', 'GOCOVERDIR': d}
    for exe, args in ((os.path.join(BUILD, 'impl_cover'), []), (os.path.join(BUILD, 'borno_cover'), ['/nonexistent.bn'])):
        if os.path.exists(exe):
            try:
                subprocess.run([exe] + args, input=b'', capture_output=True, env=env, timeout=20)
            except Exception:
                pass
    return d

def stop():
    d = COVER['dir']
    COVER['dir'] = None
    return d

def profile(d):
    """{relative file: [(start line, end line, statements, count)]} merged over all processes of the campaign"""
    if not d or not os.path.isdir(d) or not any(f.startswith('covcounters') for f in os.listdir(d)):
        return {}
    out = os.path.join(d, 'profile.txt')
    env = dict(GOENV)
    p = subprocess.run(['go', 'tool', 'covdata', 'textfmt', '-i=' + d, '-o=' + out], capture_output=True, env=env, cwd=d)
    if p.returncode != 0 or not os.path.exists(out):
        return {}
    blocks = {}
    for l in open(out, encoding='utf-8'):
        m = re.match(r'(\S+?):(\d+)\.\d+,(\d+)\.\d+ (\d+) (\d+)$', l.strip())
        if not m or not m.group(1).startswith(MOD):
            continue
        rel = m.group(1)[len(MOD):]
        key = (int(m.group(2)), int(m.group(3)), int(m.group(4)))
        b = blocks.setdefault(rel, {})
        b[key] = b.get(key, 0) + int(m.group(5))
    return {f: sorted((a, b_, n, c) for (a, b_, n), c in bl.items()) for f, bl in blocks.items()}

def summary(prof):
    pk = {}
    for f, bl in prof.items():
        if f.endswith('_test.go') or 'verif_hooks' in f:
            continue
        k = os.path.dirname(f) or 'main'
        t = pk.setdefault(k, [0, 0])
        for a, b_, n, c in bl:
            t[0] += n
            t[1] += n if c > 0 else 0
    return {k: f'{100.0 * v[1] / v[0]:.1f}% of {v[0]} statements' for k, v in sorted(pk.items()) if v[0]}

def _sanitize(s):
    return re.sub(r'\W', '_', s)

def source_units():
    """{(group, sanitized name): (relative file, first line, last line)} for every function, and every case of eval"""
    units = {}
    for group, sub in GROUP_DIR.items():
        if group == 'evalCases':
            continue
        d = os.path.join(REPO, sub)
        files = [f for f in sorted(os.listdir(d)) if f.endswith('.go') and not f.endswith('_test.go') and not f.startswith('verif_')]
        for fn in files:
            rel = os.path.join(sub, fn) if sub else fn
            lines = open(os.path.join(d, fn), encoding='utf-8').read().split('\n')
            i = 0
            while i < len(lines):
                m = re.match(r'func (?:\(\w+ \*?(\w+)\) )?(\w+)\(', lines[i])
                if m:
                    j = i
                    while j < len(lines) and lines[j] != '}' and not (j == i and lines[j].rstrip().endswith('}') and lines[j].count('{') == lines[j].count('}')):
                        j += 1
                    name = (m.group(1) + '.' if m.group(1) else '') + m.group(2)
                    if not (rel == 'interpreter/interpreter.go' and name == 'Interpreter.eval'):
                        units[(group, _sanitize(name))] = (rel, i + 1, j + 1, name)
                    else:
                        k = i
                        cur = ('prologue', i + 1)
                        while k <= j:
                            cm = re.match(r'\tcase (\*ast\.\w+):|\t(default):', lines[k])
                            if cm:
                                if cur:
                                    units[('evalCases', _sanitize(cur[0]))] = (rel, cur[1], k, cur[0])
                                cur = (cm.group(1) or 'default', k + 1)
                            k += 1
                        if cur:
                            units[('evalCases', _sanitize(cur[0]))] = (rel, cur[1], j + 1, cur[0])
                    i = j
                i += 1
    return units

def blessed_names():
    names = set()
    p = os.path.join(ROOT, 'lean', 'BornoModel', 'TieDigests.lean')
    for m in re.finditer(r'^theorem (\w+?)_(\w+) : Gen\.(\w+)\.lookup "([^"]+)"', open(p, encoding='utf-8').read(), flags=re.M):
        names.add((m.group(3), _sanitize(m.group(4))))
    return names

def changed_code(prof, broken_ties):
    """for every function / eval case whose fingerprint no longer checks, and every function the blessed inventory
    does not know: how many of its statements the campaign executed, and the blocks it never reached"""
    units = source_units()
    blessed = blessed_names()
    targets = {}
    for t in broken_ties:
        for g in GROUP_DIR:
            if t.startswith(g + '_'):
                key = (g, t[len(g) + 1:])
                if key in units:
                    targets[key] = units[key]
    for key, u in units.items():
        if key not in blessed and key[0] != 'evalCases':
            targets[key] = u          # a function added since the fingerprints were blessed
    out = {}
    for (g, _), (rel, a, b, name) in sorted(targets.items(), key=lambda kv: (kv[1][0], kv[1][1])):
        bl = [x for x in prof.get(rel, []) if x[0] >= a and x[1] <= b]
        tot = sum(x[2] for x in bl)
        hit = sum(x[2] for x in bl if x[3] > 0)
        miss = [f'{rel}:{x[0]}-{x[1]}' for x in bl if x[3] == 0]
        out[f'{g}:{name}'] = {'file': rel, 'lines': f'{a}-{b}', 'statements': tot, 'executed': hit, 'never_executed_blocks': miss[:12] + (['…'] if len(miss) > 12 else [])}
    return out
