import BornoModel.F64
/-! # Tokens (mirrors `token/token.go`) -/
namespace Borno

abbrev Name := List Char

/-- token types, in the order of the Go `iota` block (the driver prints the index) -/
inductive TT
  | LEFT_PAREN | RIGHT_PAREN | LEFT_BRACE | RIGHT_BRACE | LEFT_BRACKET | RIGHT_BRACKET
  | COMMA | DOT | MINUS | PLUS | SEMICOLON | COLON | SLASH | STAR | AND | OR | XOR | POWER | NOT | MODULO
  | BANG | BANG_EQUAL | EQUAL | EQUAL_EQUAL | GREATER | GREATER_EQUAL | LEFT_SHIFT | LESS | LESS_EQUAL | RIGHT_SHIFT
  | IDENTIFIER | STRING | NUMBER
  | BREAK | CONTINUE | LOGICAL_AND | CLASS | ELSE | FALSE | FUN | FOR | IF | NIL | LOGICAL_OR
  | PRINT | RETURN | TRUE | VAR | WHILE
  | EOF
  deriving DecidableEq, Repr, Inhabited

def TT.all : List TT :=
  [.LEFT_PAREN, .RIGHT_PAREN, .LEFT_BRACE, .RIGHT_BRACE, .LEFT_BRACKET, .RIGHT_BRACKET,
   .COMMA, .DOT, .MINUS, .PLUS, .SEMICOLON, .COLON, .SLASH, .STAR, .AND, .OR, .XOR, .POWER, .NOT, .MODULO,
   .BANG, .BANG_EQUAL, .EQUAL, .EQUAL_EQUAL, .GREATER, .GREATER_EQUAL, .LEFT_SHIFT, .LESS, .LESS_EQUAL, .RIGHT_SHIFT,
   .IDENTIFIER, .STRING, .NUMBER,
   .BREAK, .CONTINUE, .LOGICAL_AND, .CLASS, .ELSE, .FALSE, .FUN, .FOR, .IF, .NIL, .LOGICAL_OR,
   .PRINT, .RETURN, .TRUE, .VAR, .WHILE, .EOF]

def TT.names : List String :=
  ["LEFT_PAREN", "RIGHT_PAREN", "LEFT_BRACE", "RIGHT_BRACE", "LEFT_BRACKET", "RIGHT_BRACKET",
   "COMMA", "DOT", "MINUS", "PLUS", "SEMICOLON", "COLON", "SLASH", "STAR", "AND", "OR", "XOR", "POWER", "NOT", "MODULO",
   "BANG", "BANG_EQUAL", "EQUAL", "EQUAL_EQUAL", "GREATER", "GREATER_EQUAL", "LEFT_SHIFT", "LESS", "LESS_EQUAL", "RIGHT_SHIFT",
   "IDENTIFIER", "STRING", "NUMBER",
   "BREAK", "CONTINUE", "LOGICAL_AND", "CLASS", "ELSE", "FALSE", "FUN", "FOR", "IF", "NIL", "LOGICAL_OR",
   "PRINT", "RETURN", "TRUE", "VAR", "WHILE", "EOF"]

/-- the Go constant's name -/
def TT.name : TT → String
  | .LEFT_PAREN => "LEFT_PAREN"
  | .RIGHT_PAREN => "RIGHT_PAREN"
  | .LEFT_BRACE => "LEFT_BRACE"
  | .RIGHT_BRACE => "RIGHT_BRACE"
  | .LEFT_BRACKET => "LEFT_BRACKET"
  | .RIGHT_BRACKET => "RIGHT_BRACKET"
  | .COMMA => "COMMA"
  | .DOT => "DOT"
  | .MINUS => "MINUS"
  | .PLUS => "PLUS"
  | .SEMICOLON => "SEMICOLON"
  | .COLON => "COLON"
  | .SLASH => "SLASH"
  | .STAR => "STAR"
  | .AND => "AND"
  | .OR => "OR"
  | .XOR => "XOR"
  | .POWER => "POWER"
  | .NOT => "NOT"
  | .MODULO => "MODULO"
  | .BANG => "BANG"
  | .BANG_EQUAL => "BANG_EQUAL"
  | .EQUAL => "EQUAL"
  | .EQUAL_EQUAL => "EQUAL_EQUAL"
  | .GREATER => "GREATER"
  | .GREATER_EQUAL => "GREATER_EQUAL"
  | .LEFT_SHIFT => "LEFT_SHIFT"
  | .LESS => "LESS"
  | .LESS_EQUAL => "LESS_EQUAL"
  | .RIGHT_SHIFT => "RIGHT_SHIFT"
  | .IDENTIFIER => "IDENTIFIER"
  | .STRING => "STRING"
  | .NUMBER => "NUMBER"
  | .BREAK => "BREAK"
  | .CONTINUE => "CONTINUE"
  | .LOGICAL_AND => "LOGICAL_AND"
  | .CLASS => "CLASS"
  | .ELSE => "ELSE"
  | .FALSE => "FALSE"
  | .FUN => "FUN"
  | .FOR => "FOR"
  | .IF => "IF"
  | .NIL => "NIL"
  | .LOGICAL_OR => "LOGICAL_OR"
  | .PRINT => "PRINT"
  | .RETURN => "RETURN"
  | .TRUE => "TRUE"
  | .VAR => "VAR"
  | .WHILE => "WHILE"
  | .EOF => "EOF"

def TT.idx (t : TT) : Nat := (TT.all.idxOf t)

def TT.ofName? (s : String) : Option TT :=
  match TT.names.idxOf? s with
  | some i => TT.all[i]?
  | none => none

/-- ways a model run ends without an outcome: the fuel bound was hit (the Go code would still be
    running), a partial host operation was reached unguarded (the Go code would panic), or a
    value too deep to print (cyclic: the Go code recurses until its stack is exhausted) -/
inductive Abn
  | fuel
  | panic
  | cyclic
  deriving DecidableEq, Repr, Inhabited

/-- literal payload of a token -/
inductive Lit
  | none
  | num (x : F64)
  | str (s : List Char)
  deriving DecidableEq, Repr, Inhabited

structure Token where
  tt : TT
  lexeme : List Char
  lit : Lit := .none
  line : Nat
  deriving DecidableEq, Repr, Inhabited

end Borno
