//go:build verif

package interpreter

// VerifResetStdin drops the shared stdin reader, so that an in-process test
// harness can give every case its own os.Stdin. Built only with -tags verif.
func VerifResetStdin() { stdinReader = nil }
