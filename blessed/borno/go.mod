module blessedborno

go 1.22.6

require golang.org/x/text v0.21.0 // indirect
