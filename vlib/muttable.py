# Build the "which check catches which seeded change" table of DESIGN.md from the logs of
# mutest runs (.build/mut*.log) and the replay files they name.
import json, os, re, sys
ROOT = os.path.dirname(os.path.dirname(os.path.abspath(__file__)))

def rows(log):
    cur = None; res = {}
    for l in open(log, encoding='utf-8'):
        m = re.match(r'== seeded (\S+) -> check (C\d+): exit (\d+)', l)
        if m:
            cur = (m.group(1), m.group(2)); res[cur] = {'exit': m.group(3), 'replays': [], 'nofound': False}
        m = re.match(r'VIOLATION property=(C\d+) replay=(\S+)(.*)', l)
        if m and cur:
            res[cur]['replays'].append(m.group(2))
            if 'no-failing-input-found' in m.group(3):
                res[cur]['nofound'] = True
    return res

def main():
    out = ['| seeded | change (summary of `seeded/<id>/meta.json`) | check | obligations broken at build time | evidence found (kind / campaign label; smallest input) |', '|---|---|---|---|---|']
    for log in sys.argv[1:]:
        for (sid, chk), r in rows(log).items():
            meta = json.load(open(os.path.join(ROOT, 'seeded', sid, 'meta.json'), encoding='utf-8'))
            summ = meta['summary'].replace('|', '/').replace('\n', ' ')
            summ = summ[:200] + ('…' if len(summ) > 200 else '')
            broken, kinds, inp = [], [], ''
            for p in r['replays']:
                if not os.path.exists(p):
                    continue
                d = json.load(open(p, encoding='utf-8'))
                for b in d.get('broken_obligations', d.get('broken_ties', {})) or {}:
                    if b not in broken:
                        broken.append(b)
                k = f"{d.get('kind')} / {d.get('label')}"
                if k not in kinds:
                    kinds.append(k)
                if not inp:
                    src = d.get('source')
                    if isinstance(src, str):
                        body = [x for x in src.strip().split('\n') if x.strip()]
                        inp = body[-1][:60] if body else ''
                    elif d.get('files'):
                        v = next((v for v in d['files'].values() if v), '')
                        body = [x for x in v.strip().split('\n') if x.strip()]
                        inp = (body[-1][:60] if body else '') + (f" (stdin {d.get('stdin')!r})" if d.get('stdin') else '')
                    elif 'stdin' in d:
                        inp = 'session ' + repr(d.get('stdin'))[:70]
            verdict = 'reported' if r['exit'] == '1' else '**not reported**'
            if r['nofound']:
                verdict += ' (no-failing-input-found)'
            out.append(f"| `{sid}` | {summ} | {chk} quick: {verdict} | {', '.join('`'+b+'`' for b in broken[:4]) or '—'} | {'; '.join(kinds[:3])}{': `' + inp.replace('|', '¦').replace('`', chr(39)) + '`' if inp else ''} |")
    print('\n'.join(out))

if __name__ == '__main__':
    main()
