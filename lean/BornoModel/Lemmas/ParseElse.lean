import BornoModel.Lemmas.ParseSoundStmt
/-!
# ParseElse — `নাহয়` attaches to the nearest `যদি`

Whatever statement the parser returns (with or without lenient diagnostics):
* if the statement ends in an `if` without `else` (`openIf`), the next token is not `ELSE`
  (the inner `if` would have taken it);
* hence every `if … else` in the returned tree has a closed then-branch (`elseOk`).
-/
namespace Borno.Parser
open Borno Grammar

theorem exprThenSemi_shape {f : Nat} {mk : Expr → Stmt} {ts : List Token} {s : Stmt} {r : List Token} {ds : List Diag}
    (h : exprThenSemi f mk ts = .ok s r ds) : ∃ e, s = mk e := by
  unfold exprThenSemi at h
  obtain ⟨e, r1, d1, d2, _, h1, _⟩ := sbind_ok h
  try dsimp only at h1
  obtain ⟨u, r2, d3, d4, _, h2, _⟩ := sbind_ok h1
  try dsimp only at h2
  cases h2
  exact ⟨e, rfl⟩

theorem varDeclaration_shape {f : Nat} {ts : List Token} {s : Stmt} {r : List Token} {ds : List Diag}
    (h : varDeclaration f ts = .ok s r ds) : (∃ d, s = .var d) ∨ (∃ vs, s = .varList vs) := by
  unfold varDeclaration at h
  obtain ⟨t0, r0, rfl, h1⟩ := speek_ok h
  try dsimp only at h1
  have h2 := (toSR_ok h1).1
  obtain ⟨vs, r1, _, h3⟩ := bind_ok h2
  try dsimp only at h3
  obtain ⟨sc, r2, _, h4⟩ := bind_ok h3
  try dsimp only at h4
  split at h4
  · cases h4; exact Or.inl ⟨_, rfl⟩
  · cases h4; exact Or.inr ⟨_, rfl⟩

/-- the next token is not `ELSE` -/
def NoElse (r : List Token) : Prop := ∀ t r', r = t :: r' → t.tt ≠ .ELSE

structure ElseP (f : Nat) : Prop where
  decl : ∀ ts s r ds, declaration f ts = .ok s r ds → elseOk s = true ∧ (openIf s = true → NoElse r)
  fn : ∀ ts s r ds, function f ts = .ok s r ds → elseOk s = true ∧ openIf s = false
  blk : ∀ ts ss r ds, block f ts = .ok ss r ds → elseOkAll ss = true
  stmt : ∀ ts s r ds, statement f ts = .ok s r ds → elseOk s = true ∧ (openIf s = true → NoElse r)

theorem elseP : ∀ f, ElseP f := by
  intro f
  induction f with
  | zero =>
    refine ⟨?_, ?_, ?_, ?_⟩ <;> intros <;> rename_i h
    · rw [declaration] at h; cases h
    · rw [function] at h; cases h
    · rw [block] at h; cases h
    · rw [statement] at h; cases h
  | succ f ih =>
    refine ⟨?_, ?_, ?_, ?_⟩
    · -- declaration
      intro ts s r ds h
      rw [declaration] at h
      obtain ⟨t, r0, rfl, h1⟩ := speek_ok h
      try dsimp only at h1
      by_cases hf : t.tt = .FUN
      · simp only [hf, if_true] at h1
        obtain ⟨a, b⟩ := ih.fn _ _ _ _ h1
        exact ⟨a, fun ho => by rw [b] at ho; cases ho⟩
      · simp only [hf, if_false] at h1
        by_cases hv : t.tt = .VAR
        · simp only [hv, if_true] at h1
          rcases varDeclaration_shape h1 with ⟨d, rfl⟩ | ⟨vs, rfl⟩
          · exact ⟨by simp [elseOk], fun ho => by simp [openIf] at ho⟩
          · exact ⟨by simp [elseOk], fun ho => by simp [openIf] at ho⟩
        · simp only [hv, if_false] at h1
          exact ih.stmt _ _ _ _ h1
    · -- function
      intro ts s r ds h
      rw [function] at h
      obtain ⟨t, r0, rfl, h1⟩ := speek_ok h
      try dsimp only at h1
      split at h1
      · cases h1
      · split at h1
        · cases h1
        · obtain ⟨names, r4, d1, d2, _, h2, _⟩ := sbind_ok h1
          try dsimp only at h2
          obtain ⟨body, r6, d3, d4, hbody, h8, _⟩ := sbind_ok h2
          try dsimp only at h8
          cases h8
          exact ⟨by simp [elseOk, ih.blk _ _ _ _ hbody], by simp [openIf]⟩
    · -- block
      intro ts ss r ds h
      rw [block] at h
      obtain ⟨t, r0, rfl, h1⟩ := speek_ok h
      try dsimp only at h1
      by_cases hrb : t.tt = .RIGHT_BRACE
      · simp only [hrb, if_true] at h1
        cases h1
        simp [elseOkAll]
      · simp only [hrb, if_false] at h1
        by_cases heof : t.tt = .EOF
        · simp only [heof, if_true] at h1; cases h1; simp [elseOkAll]
        · simp only [heof, if_false] at h1
          obtain ⟨s, r1, d1, d2, hs, h2, _⟩ := sbind_ok h1
          try dsimp only at h2
          obtain ⟨ss', r2, d3, d4, hss, h3, _⟩ := sbind_ok h2
          try dsimp only at h3
          cases h3
          simp [elseOkAll, (ih.decl _ _ _ _ hs).1, ih.blk _ _ _ _ hss]
    · -- statement
      intro ts s r ds h
      rw [statement] at h
      obtain ⟨t, r0, rfl, h1⟩ := speek_ok h
      try dsimp only at h1
      split at h1
      · -- if
        obtain ⟨c, r3, d1, d2, _, h2, _⟩ := sbind_ok h1
        try dsimp only at h2
        obtain ⟨th, r4, d3, d4, hth, h6, _⟩ := sbind_ok h2
        try dsimp only at h6
        obtain ⟨oth, cth⟩ := ih.stmt _ _ _ _ hth
        obtain ⟨e, r5, rfl, h7⟩ := speek_ok h6
        try dsimp only at h7
        by_cases he : e.tt = .ELSE
        · simp only [he, if_true] at h7
          obtain ⟨el, r6, d5, d6, hel, h8, _⟩ := sbind_ok h7
          try dsimp only at h8
          cases h8
          obtain ⟨oel, cel⟩ := ih.stmt _ _ _ _ hel
          have hclosed : openIf th = false := by
            cases ho : openIf th with
            | false => rfl
            | true => exact absurd he (cth ho e r5 rfl)
          exact ⟨by simp [elseOk, elseOkElse, oth, oel, hclosed], fun ho => cel (by simpa [openIf] using ho)⟩
        · simp only [he, if_false] at h7
          cases h7
          exact ⟨by simp [elseOk, elseOkElse, oth], fun _ t' r' heq => by cases heq; exact he⟩
      · -- while
        obtain ⟨c, r3, d1, d2, _, h2, _⟩ := sbind_ok h1
        try dsimp only at h2
        obtain ⟨b, r4, d3, d4, hb, h6, _⟩ := sbind_ok h2
        try dsimp only at h6
        cases h6
        obtain ⟨ob, cb⟩ := ih.stmt _ _ _ _ hb
        exact ⟨by simp [elseOk, ob], fun ho => cb (by simpa [openIf] using ho)⟩
      · -- for
        obtain ⟨lp, r1, d1, d2, _, h2, _⟩ := sbind_ok h1
        try dsimp only at h2
        obtain ⟨init, r3, d3, d4, _, h3, _⟩ := sbind_ok h2
        try dsimp only at h3
        obtain ⟨ci, r7, d5, d6, _, h6, _⟩ := sbind_ok h3
        try dsimp only at h6
        obtain ⟨body, r8, d7, d8, hbody, h13, _⟩ := sbind_ok h6
        try dsimp only at h13
        cases h13
        obtain ⟨ob, cb⟩ := ih.stmt _ _ _ _ hbody
        exact ⟨by simp [elseOk, ob], fun ho => cb (by simpa [openIf] using ho)⟩
      · -- print
        obtain ⟨e, rfl⟩ := exprThenSemi_shape h1
        exact ⟨by simp [elseOk], fun ho => by simp [openIf] at ho⟩
      · -- return
        have h2 := (toSR_ok h1).1
        obtain ⟨sc, r1, rfl, h3⟩ := peek_ok h2
        try dsimp only at h3
        by_cases hs : sc.tt = .SEMICOLON
        · simp only [hs, if_true] at h3; cases h3
          exact ⟨by simp [elseOk], fun ho => by simp [openIf] at ho⟩
        · simp only [hs, if_false] at h3
          obtain ⟨v, r2, _, h4⟩ := bind_ok h3
          try dsimp only at h4
          obtain ⟨sm, r3, _, h5⟩ := bind_ok h4
          try dsimp only at h5
          cases h5
          exact ⟨by simp [elseOk], fun ho => by simp [openIf] at ho⟩
      · -- break
        have h2 := (toSR_ok h1).1
        obtain ⟨sc, r1, _, h3⟩ := bind_ok h2
        try dsimp only at h3
        cases h3
        exact ⟨by simp [elseOk], fun ho => by simp [openIf] at ho⟩
      · -- continue
        have h2 := (toSR_ok h1).1
        obtain ⟨sc, r1, _, h3⟩ := bind_ok h2
        try dsimp only at h3
        cases h3
        exact ⟨by simp [elseOk], fun ho => by simp [openIf] at ho⟩
      · -- block
        obtain ⟨ss, r1, d1, d2, hss, h2, _⟩ := sbind_ok h1
        try dsimp only at h2
        cases h2
        exact ⟨by simp [elseOk, ih.blk _ _ _ _ hss], fun ho => by simp [openIf] at ho⟩
      · -- expression statement
        obtain ⟨e, rfl⟩ := exprThenSemi_shape h1
        exact ⟨by simp [elseOk], fun ho => by simp [openIf] at ho⟩

/-- every statement of a parsed program has its `else`s on the nearest `if` -/
theorem program_elseOk : ∀ (f : Nat) (ts : List Token) (p : List Stmt) (r : List Token) (ds : List Diag),
    program f ts = .ok p r ds → elseOkAll p = true := by
  intro f
  induction f with
  | zero => intro ts p r ds h; rw [program] at h; cases h
  | succ f ih =>
    intro ts p r ds h
    rw [program] at h
    obtain ⟨t, r0, rfl, h1⟩ := speek_ok h
    try dsimp only at h1
    by_cases heof : t.tt = .EOF
    · simp only [heof, if_true] at h1
      cases h1
      simp [elseOkAll]
    · simp only [heof, if_false] at h1
      obtain ⟨s, r1, d1, d2, hs, h2, _⟩ := sbind_ok h1
      try dsimp only at h2
      obtain ⟨ss, r2, d3, d4, hss, h3, _⟩ := sbind_ok h2
      try dsimp only at h3
      cases h3
      simp [elseOkAll, ((elseP f).decl _ _ _ _ hs).1, ih _ _ _ _ hss]

end Borno.Parser
