// impl: runs the real Borno packages from /repo in-process, one request per line, and prints
// one canonical response per line in the same format as the Lean model driver.
//
//	request : mode TAB hex(source utf8) TAB hex(stdin) TAB options
//	modes   : lex | parse | run | repl | num
package main

import (
	"bufio"
	"encoding/hex"
	"fmt"
	"io"
	"math"
	"os"
	"sort"
	"strconv"
	"strings"
	"time"

	"github.com/ah-naf/borno/ast"
	"github.com/ah-naf/borno/interpreter"
	"github.com/ah-naf/borno/lexer"
	"github.com/ah-naf/borno/parser"
	"github.com/ah-naf/borno/token"
	"github.com/ah-naf/borno/utils"
)

var (
	origOut = os.Stdout
	origErr = os.Stderr
	origIn  = os.Stdin
)

type capture struct {
	outR, errR *os.File
	outW, errW *os.File
	inR, inW   *os.File
	outCh      chan []byte
	errCh      chan []byte
}

func startCapture(stdin []byte) *capture {
	c := &capture{outCh: make(chan []byte, 1), errCh: make(chan []byte, 1)}
	c.outR, c.outW, _ = os.Pipe()
	c.errR, c.errW, _ = os.Pipe()
	c.inR, c.inW, _ = os.Pipe()
	go func() { b, _ := io.ReadAll(c.outR); c.outCh <- b }()
	go func() { b, _ := io.ReadAll(c.errR); c.errCh <- b }()
	go func() { c.inW.Write(stdin); c.inW.Close() }()
	os.Stdout, os.Stderr, os.Stdin = c.outW, c.errW, c.inR
	return c
}

func (c *capture) stop() (string, string) {
	os.Stdout, os.Stderr, os.Stdin = origOut, origErr, origIn
	c.outW.Close()
	c.errW.Close()
	out := <-c.outCh
	er := <-c.errCh
	c.outR.Close()
	c.errR.Close()
	c.inR.Close()
	return string(out), string(er)
}

func hx(s string) string { return hex.EncodeToString([]byte(s)) }

// canonErr cuts the parts of three message families that quote Go-internal renderings
// (%q / %T of the operand, String() of a syntax tree).
func canonErr(s string) string {
	var b strings.Builder
	for {
		i := -1
		kind := 0
		for k, pat := range []string{"expected a number, got", "expected an integer, got", " does not exist on object '"} {
			j := strings.Index(s, pat)
			if j >= 0 && (i < 0 || j < i) {
				i, kind = j, k
			}
		}
		if i < 0 {
			b.WriteString(s)
			return b.String()
		}
		switch kind {
		case 0, 1:
			pat := []string{"expected a number, got", "expected an integer, got"}[kind]
			b.WriteString(s[:i+len(pat)])
			rest := s[i+len(pat):]
			j := strings.Index(rest, "\n[line ")
			if j < 0 {
				return b.String()
			}
			s = rest[j:]
		case 2:
			b.WriteString(s[:i+len(" does not exist on object")])
			rest := s[i:]
			j := strings.Index(rest, "'.\n[line ")
			if j < 0 {
				return b.String()
			}
			s = rest[j+2:]
		}
	}
}

func litStr(v interface{}) string {
	switch x := v.(type) {
	case nil:
		return "-"
	case float64:
		return fmt.Sprintf("n%016x", math.Float64bits(x))
	case string:
		return "s" + hx(x)
	case []rune:
		return "r" + hx(string(x))
	case bool:
		if x {
			return "true"
		}
		return "false"
	default:
		return fmt.Sprintf("?%T", v)
	}
}

func canonNaN(x float64) uint64 {
	if x != x {
		return 0x7FF8000000000001
	}
	return math.Float64bits(x)
}

func litNum(v interface{}) string {
	if f, ok := v.(float64); ok {
		return fmt.Sprintf("n%016x", canonNaN(f))
	}
	return litStr(v)
}

func dumpTokens(toks []token.Token) string {
	var parts []string
	for _, t := range toks {
		parts = append(parts, fmt.Sprintf("T:%d:%s:%s:%d", int(t.Type), hx(t.Lexeme), litNum(t.Literal), t.Line))
	}
	return strings.Join(parts, " ")
}

func dumpExprs(es []ast.Expr) string {
	var parts []string
	for _, e := range es {
		parts = append(parts, dumpExpr(e))
	}
	return "[" + strings.Join(parts, " ") + "]"
}

func dumpStmts(ss []ast.Stmt) string {
	var parts []string
	for _, s := range ss {
		parts = append(parts, dumpExpr(s))
	}
	return "[" + strings.Join(parts, " ") + "]"
}

func isNilNode(e interface{}) bool {
	if e == nil {
		return true
	}
	switch x := e.(type) {
	case ast.Expr:
		return x == nil
	}
	return false
}

func opt(e ast.Expr) string {
	if e == nil {
		return "-"
	}
	return dumpExpr(e)
}

func dumpVar(v *ast.VarStmt) string {
	return fmt.Sprintf("(var %s %d %s)", hx(v.Name.Lexeme), v.Line, opt(v.Initializer))
}

func dumpExpr(e ast.Expr) string {
	switch x := e.(type) {
	case nil:
		return "-"
	case *ast.Literal:
		return fmt.Sprintf("(lit %s %d)", litNum(x.Value), x.Line)
	case *ast.Identifier:
		return fmt.Sprintf("(id %s %d)", hx(x.Name.Lexeme), x.Line)
	case *ast.Grouping:
		return fmt.Sprintf("(grp %s %d)", dumpExpr(x.Expression), x.Line)
	case *ast.Unary:
		return fmt.Sprintf("(un %d %d %s)", int(x.Operator.Type), x.Line, dumpExpr(x.Right))
	case *ast.Binary:
		return fmt.Sprintf("(bin %d %d %s %s)", int(x.Operator.Type), x.Line, dumpExpr(x.Left), dumpExpr(x.Right))
	case *ast.Logical:
		return fmt.Sprintf("(log %d %s %s)", int(x.Operator.Type), dumpExpr(x.Left), dumpExpr(x.Right))
	case *ast.Call:
		return fmt.Sprintf("(call %s %d %s)", dumpExpr(x.Callee), x.Paren.Line, dumpExprs(x.Arguments))
	case *ast.ArrayLiteral:
		return fmt.Sprintf("(arr %s)", dumpExprs(x.Elements))
	case *ast.ObjectLiteral:
		var parts []string
		for _, k := range x.Keys {
			parts = append(parts, fmt.Sprintf("(%s %s)", hx(k), dumpExpr(x.Properties[k])))
		}
		extra := ""
		if len(x.Keys) != len(x.Properties) {
			extra = " !keys"
		}
		return fmt.Sprintf("(obj [%s]%s)", strings.Join(parts, " "), extra)
	case *ast.ArrayAccess:
		return fmt.Sprintf("(idx %s %s %d)", dumpExpr(x.Array), dumpExpr(x.Index), x.Line)
	case *ast.PropertyAccess:
		return fmt.Sprintf("(prop %s %s %d)", dumpExpr(x.Object), hx(x.Property.Lexeme), x.Line)
	case *ast.AssignmentStmt:
		return fmt.Sprintf("(asg %s %d %s %d)", hx(x.Name.Lexeme), x.Name.Line, dumpExpr(x.Value), x.Line)
	case *ast.ArrayAssignment:
		return fmt.Sprintf("(aasg %s %s %s %d)", dumpExpr(x.Array), dumpExpr(x.Index), dumpExpr(x.Value), x.Line)
	case *ast.PropertyAssignment:
		return fmt.Sprintf("(pasg %s %s %s %d)", dumpExpr(x.Object), hx(x.Property.Lexeme), dumpExpr(x.Value), x.Line)
	case *ast.ExpressionStatement:
		return fmt.Sprintf("(expr %s)", dumpExpr(x.Expression))
	case *ast.PrintStatement:
		return fmt.Sprintf("(print %s)", dumpExpr(x.Expression))
	case *ast.VarStmt:
		return dumpVar(x)
	case *ast.VarListStmt:
		var parts []string
		for i := range x.Declarations {
			parts = append(parts, dumpVar(&x.Declarations[i]))
		}
		return fmt.Sprintf("(varlist [%s])", strings.Join(parts, " "))
	case *ast.BlockStmt:
		return fmt.Sprintf("(block %s)", dumpStmts(x.Block))
	case *ast.IfStmt:
		return fmt.Sprintf("(if %s %s %s)", dumpExpr(x.Condition), dumpExpr(x.ThenBranch), opt(x.ElseBranch))
	case *ast.While:
		return fmt.Sprintf("(while %s %s)", dumpExpr(x.Condition), dumpExpr(x.Body))
	case *ast.ForStmt:
		return fmt.Sprintf("(for %s %s %s %s)", opt(x.Initializer), opt(x.Condition), opt(x.Increment), dumpExpr(x.Body))
	case *ast.BreakStmt:
		return fmt.Sprintf("(break %d)", x.Line)
	case *ast.ContinueStmt:
		return fmt.Sprintf("(continue %d)", x.Line)
	case *ast.Return:
		return fmt.Sprintf("(return %d %s)", x.Keyword.Line, opt(x.Value))
	case *ast.FunctionStmt:
		var ps []string
		for _, p := range x.Params {
			ps = append(ps, hx(p.Lexeme))
		}
		return fmt.Sprintf("(fun %s [%s] %s)", hx(x.Name.Lexeme), strings.Join(ps, " "), dumpStmts(x.Body))
	default:
		return fmt.Sprintf("(?%T)", e)
	}
}

// hostKind: dynamic Go type of a top-level result (C16 tie_hostKinds, observed dynamically)
func hostKinds(vs []interface{}) string {
	seen := map[string]bool{}
	for _, v := range vs {
		seen[fmt.Sprintf("%T", v)] = true
	}
	var ks []string
	for k := range seen {
		ks = append(ks, k)
	}
	sort.Strings(ks)
	return strings.Join(ks, ",")
}

func doCase(mode string, src, stdin []byte, opts map[string]string) (resp string) {
	utils.HadError = false
	utils.HadRuntimeError = false
	resetStdin()
	c := startCapture(stdin)
	stopped := false
	var out, er string
	defer func() {
		if !stopped {
			out, er = c.stop()
		}
		if r := recover(); r != nil {
			resp = fmt.Sprintf("PANIC:%s\tO:%s\tE:%s", hx(fmt.Sprint(r)), hx(out), hx(canonErr(er)))
		}
	}()
	runes := []rune(string(src))
	toks := lexer.NewScanner(runes).ScanTokens()
	if mode == "lex" {
		out, er = c.stop()
		stopped = true
		return fmt.Sprintf("%s\tE:%s\tF:%s", dumpTokens(toks), hx(er), flags())
	}
	prog, perr := parser.NewParser(toks).Parse()
	if mode == "parse" {
		out, er = c.stop()
		stopped = true
		tree := "-"
		if perr == nil {
			tree = dumpStmts(prog)
		}
		return fmt.Sprintf("%s\tE:%s\tF:%s", tree, hx(er), flags())
	}
	kinds := ""
	if !utils.HadError {
		res := interpreter.NewInterpreter().Interpret(prog, mode == "repl")
		kinds = hostKinds(res)
	}
	out, er = c.stop()
	stopped = true
	return fmt.Sprintf("O:%s\tE:%s\tF:%s\tK:%s", hx(out), hx(canonErr(er)), flags(), kinds)
}

func flags() string {
	b := func(x bool) string {
		if x {
			return "1"
		}
		return "0"
	}
	return b(utils.HadError) + b(utils.HadRuntimeError)
}

func bitsArg(s string) float64 {
	u, _ := strconv.ParseUint(s, 16, 64)
	return math.Float64frombits(u)
}

// num mode: "num TAB op TAB a TAB b" (bits in hex, or hex text for pf)
func doNum(f []string) string {
	op := f[1]
	r := func(x float64) string { return fmt.Sprintf("%016x", canonNaN(x)) }
	bl := func(x bool) string {
		if x {
			return "1"
		}
		return "0"
	}
	switch op {
	case "pf":
		b, _ := hex.DecodeString(f[2])
		v, err := strconv.ParseFloat(string(b), 64)
		if err != nil {
			if ne, ok := err.(*strconv.NumError); ok && ne.Err == strconv.ErrRange {
				return "range"
			}
			return "syntax"
		}
		return "ok " + r(v)
	case "fmt":
		return hx(fmt.Sprintf("%v", bitsArg(f[2])))
	case "tr":
		b, _ := hex.DecodeString(f[2])
		return hx(utils.ConvertBanglaDigitsToASCII(string(b)))
	}
	a := bitsArg(f[2])
	var b float64
	if len(f) > 3 {
		b = bitsArg(f[3])
	}
	switch op {
	case "add":
		return r(a + b)
	case "sub":
		return r(a - b)
	case "mul":
		return r(a * b)
	case "div":
		return r(a / b)
	case "mod":
		return r(math.Mod(a, b))
	case "neg":
		return r(-a)
	case "abs":
		return r(math.Abs(a))
	case "round":
		return r(math.Round(a))
	case "sqrt":
		return r(math.Sqrt(a))
	case "lt":
		return bl(a < b)
	case "le":
		return bl(a <= b)
	case "eq":
		return bl(a == b)
	case "i64":
		if float64(int64(a)) == a {
			return fmt.Sprintf("ok %d", int64(a))
		}
		return "none"
	case "ofint":
		i, _ := strconv.ParseInt(f[2], 10, 64)
		return r(float64(i))
	}
	return "?"
}

func main() {
	rd := bufio.NewReaderSize(origIn, 1<<20)
	wr := bufio.NewWriterSize(origOut, 1<<16)
	defer wr.Flush()
	timeout := 5 * time.Second
	if v := os.Getenv("IMPL_TIMEOUT_MS"); v != "" {
		if n, err := strconv.Atoi(v); err == nil {
			timeout = time.Duration(n) * time.Millisecond
		}
	}
	for {
		line, err := rd.ReadString('\n')
		if len(line) == 0 && err != nil {
			return
		}
		line = strings.TrimRight(line, "\n")
		f := strings.Split(line, "\t")
		if f[0] == "num" {
			fmt.Fprintln(wr, doNum(f))
			wr.Flush()
			continue
		}
		for len(f) < 4 {
			f = append(f, "")
		}
		src, _ := hex.DecodeString(f[1])
		stdin, _ := hex.DecodeString(f[2])
		opts := map[string]string{}
		done := make(chan string, 1)
		go func() { done <- doCase(f[0], src, stdin, opts) }()
		select {
		case r := <-done:
			fmt.Fprintln(wr, r)
			wr.Flush()
		case <-time.After(timeout):
			// the case hangs: say so and leave; the orchestrator restarts after this case
			// (os.Stdout stays redirected: whatever the abandoned goroutine still prints must not reach the protocol stream)
			fmt.Fprintln(wr, "TIMEOUT")
			wr.Flush()
			os.Exit(3)
		}
		if err != nil {
			return
		}
	}
}
