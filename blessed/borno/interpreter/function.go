package interpreter

import (
	"blessedborno/ast"
	"blessedborno/environment"
)

type Callable interface {
	Call(interpreter *Interpreter, arguments []interface{}) (interface{}, error)
	Arity() int
}

type Function struct {
	Declaration *ast.FunctionStmt
	Closure     *environment.Environment
}

func NewFunction(declaration *ast.FunctionStmt, closure *environment.Environment) *Function {
	return &Function{Declaration: declaration, Closure: closure}
}

func (f *Function) Call(i *Interpreter, arguments []interface{}) (interface{}, error) {
	functionEnv := environment.NewEnvironmentWithParent(f.Closure)

	functionEnv.Define(f.Declaration.Name.Lexeme, f)

	for ind, param := range f.Declaration.Params {
		functionEnv.Define(param.Lexeme, arguments[ind])
	}

	for _, statment := range f.Declaration.Body {
		_, signal := i.eval(statment, functionEnv, false)
		if signal.Type == ControlFlowReturn {
			return signal.Value, nil
		}
		if signal.Type != ControlFlowNone {
			return nil, nil // You can later add support for return values.
		}
	}
	return nil, nil
}

func (f *Function) Arity() int {
	// Return the number of parameters the function takes.
	return len(f.Declaration.Params)
}

func (f *Function) String() string {
	return "<function " + f.Declaration.Name.Lexeme + ">"
}
