import BornoModel.Eval
import BornoModel.Cli
import BornoModel.Parser
import BornoModel.Props.C10
import BornoModel.Lemmas.LexInsert
import BornoModel.Lemmas.Interchange
import BornoModel.Lemmas.Paren
/-! # C18 — meaning is invariant under layout, digit script, synonyms, renaming, parentheses -/
namespace Borno.Props.C18
open Borno Lexer

/-- (c) the symbol and the word spelling of each logical operator give the same token type, and the
    tree keeps only the type -/
theorem logical_synonyms :
    Expect.keywords.lookup (Expect.cps [0x098F, 0x09AC, 0x0982]) = some .LOGICAL_AND ∧
    Expect.keywords.lookup (Expect.cps [0x09AC, 0x09BE]) = some .LOGICAL_OR ∧
    (Expect.twoOps.lookup '&').map (fun p => p.1.lookup '&') = some (some .LOGICAL_AND) ∧
    (Expect.twoOps.lookup '|').map (fun p => p.1.lookup '|') = some (some .LOGICAL_OR) := by decide

theorem logical_node_ignores_spelling (k : Nat) (l r : Expr) (t t' : Token) (hk : Parser.levelNode k = .logical)
    (ht : t.tt = t'.tt) : Parser.mkBin k l t r = Parser.mkBin k l t' r := by
  simp [Parser.mkBin, hk, ht]

/-- (a) blanks between tokens produce no token, no diagnostic and do not move the line -/
theorem blank_is_trivia (lm : Char → Bool) (c : Char) (r : List Char) (line : Nat) (hc : c = ' ' ∨ c = '\t' ∨ c = '\r') :
    scanToken lm (c :: r) line = some ⟨none, none, [c], r, line⟩ := by
  rcases hc with rfl | rfl | rfl <;> simp [scanToken, Expect.singleOps, Expect.twoOps, Expect.blanks, List.lookup]

/-- a line break produces no token either; it only advances the line counter -/
theorem newline_is_trivia (lm : Char → Bool) (r : List Char) (line : Nat) :
    scanToken lm ('\n' :: r) line = some ⟨none, none, ['\n'], r, line + 1⟩ := by
  simp [scanToken, Expect.singleOps, Expect.twoOps, Expect.blanks, List.lookup]

/-- a line comment produces no token and ends before the newline -/
theorem line_comment_is_trivia (lm : Char → Bool) (r : List Char) (line : Nat) :
    ∃ st, scanToken lm ('/' :: '/' :: r) line = some st ∧ st.tok = none ∧ st.diag = none ∧
      st.rest = r.dropWhile notNl ∧ st.line = line := by
  refine ⟨_, by simp [scanToken, Expect.singleOps, Expect.twoOps, List.lookup, scanSlash]; rfl, rfl, rfl, rfl, rfl⟩

/-- a terminated block comment produces no token and no diagnostic; the scan resumes right after
    its `*/` with the line counter advanced by the newlines inside it -/
theorem block_comment_is_trivia (lm : Char → Bool) (r u rest : List Char) (line : Nat) (h : blockComment r = (u, some rest)) :
    scanToken lm ('/' :: '*' :: r) line = some ⟨none, none, '/' :: '*' :: u, rest, line + countNl u⟩ := by
  simp [scanToken, Expect.singleOps, Expect.twoOps, List.lookup, scanSlash, h]

/-- the first `*/` ends the comment -/
theorem blockComment_first_close : ∀ (body rest : List Char),
    (∀ i, i + 1 < body.length → ¬ (body[i]? = some '*' ∧ body[i+1]? = some '/')) → body.getLast? ≠ some '*' →
    blockComment (body ++ '*' :: '/' :: rest) = (body ++ ['*', '/'], some rest) := by
  intro body
  induction body with
  | nil => intro rest _ _; simp [blockComment]
  | cons c cs ih =>
    intro rest hno hlast
    have hno' : ∀ i, i + 1 < cs.length → ¬ (cs[i]? = some '*' ∧ cs[i+1]? = some '/') := by
      intro i hi; have := hno (i + 1) (by simp; omega); simpa using this
    have hlast' : cs.getLast? ≠ some '*' := by
      cases cs with
      | nil => simp
      | cons d ds => simpa [List.getLast?_cons_cons] using hlast
    simp only [List.cons_append]
    unfold blockComment
    by_cases hst : c = '*'
    · subst hst
      simp only [if_true]
      cases cs with
      | nil => simp at hlast
      | cons d ds =>
        have hd : d ≠ '/' := by
          intro e; subst e
          exact hno 0 (by simp) (by simp)
        simp only [List.cons_append, hd, if_false]
        rw [← List.cons_append, ih rest hno' hlast']
        simp
    · simp only [hst, if_false]
      rw [ih rest hno' hlast']

/-- (b) the two digit scripts go through one transliteration (see C10) -/
theorem digit_script_invariant (c : Char) (h : 0x30 ≤ c.toNat ∧ c.toNat ≤ 0x39) :
    translitChar (Char.ofNat (c.toNat + 0x9B6)) = translitChar c := by
  have := C10.script_swap_invariant c h
  rw [this.1, this.2]

/-- (e) redundant parentheses: a grouping evaluates to exactly what its content evaluates to -/
theorem grouping_transparent (P : Platform) (f : Nat) (e : Expr) (line env : Nat) (repl : Bool) (σ : Store) (h0 : σ.hadError = false) :
    evalE P (f + 1) (.grouping e line) env repl σ = evalE P f e env repl σ := by
  rw [evalE]; simp [guardErr, ER.seq, Res.bind, h0]

/-- (f) never-executed code: the untaken arm of a conditional leaves no trace -/
theorem dead_branch_invisible (P : Platform) (f : Nat) (c : Expr) (s : Stmt) (env : Nat) (repl : Bool) (σ σ1 : Store) (cv : Val)
    (h0 : σ.hadError = false) (hc : evalE P f c env repl σ = .ok (cv, .none) σ1) (ht : truthy cv = false) :
    evalS P (f + 1) (.ifS c s none) env repl σ = .ok (.nil, .none) σ1 := by
  rw [evalS]; simp only [guardErr, ER.seq, Res.bind, h0, hc]; simp [guardErr, ER.seq, Res.bind, ht, nilOk]

/-! ## (a) for whole texts: a blank or a line break after any token -/

/-- **inserting a blank, a tab or a carriage return immediately after any token of a text leaves the
    scanner's whole output unchanged** — the same tokens with the same lines, the same diagnostics.
    (`AfterToken lm A B 1`: the scanner consumes `A` in whole steps and the last one yields a token;
    `lm b = false`: a blank is not a letter.) -/
theorem blank_insertion_after_any_token (lm : Char → Bool) (hlm : lm '\n' = false) (b : Char)
    (hb : b = ' ' ∨ b = '\t' ∨ b = '\r') (hlmb : lm b = false) (A B : List Char) (toks : List Token) (ds : List Diag)
    (hat : AfterToken lm A B 1) (h : Lexer.scan lm (A ++ B) = some (toks, ds)) :
    Lexer.scan lm (A ++ b :: B) = some (toks, ds) := by
  unfold Lexer.scan at h ⊢
  have := blank_after_token lm hlm b hb hlmb hat _ toks ds h
  simpa [List.length_append, Nat.add_assoc, Nat.add_comm 1] using this

/-- **inserting a line break immediately after any token changes no token and no diagnostic, only
    line numbers** -/
theorem newline_insertion_after_any_token (lm : Char → Bool) (hlm : lm '\n' = false) (A B : List Char)
    (toks : List Token) (ds : List Diag) (hat : AfterToken lm A B 1) (h : Lexer.scan lm (A ++ B) = some (toks, ds)) :
    ∃ toks' ds', Lexer.scan lm (A ++ '\n' :: B) = some (toks', ds') ∧
      toks'.map tokShape = toks.map tokShape ∧ ds'.map diagShape = ds.map diagShape := by
  unfold Lexer.scan at h ⊢
  obtain ⟨t', d', h1, h2, h3⟩ := newline_after_token lm hlm hat _ toks ds h
  exact ⟨t', d', by simpa [List.length_append, Nat.add_assoc, Nat.add_comm 1] using h1, h2, h3⟩

/-- the general form: **one piece of trivia — a blank, a line break, a complete block comment —
    inserted after any closed scanning step** (a token, a blank, a line break, a complete block comment;
    for a comment: not after a `/` token, which it would turn into another token or comment)
    changes no token and no diagnostic, only the line numbers of what follows.  Since the inserted
    piece is itself a closed step, insertions can be repeated: any sequence of blanks, line
    breaks and comments between two tokens. -/
theorem trivia_piece_insertion (lm : Char → Bool) (hlm : lm '\n' = false) (b : Char) (T' : List Char) (hb : isGap' b) (hlmb : lm b = false)
    (A B : List Char) (toks : List Token) (ds : List Diag)
    (hT : ∀ l, scanToken lm ((b :: T') ++ B) l = some ⟨none, none, b :: T', B, l + countNl (b :: T')⟩)
    (hat : AfterStep lm (fun st => Closed b st ∧ (st.rest ≠ [] ∨ st.tok.isSome = true)) A B 1)
    (h : Lexer.scan lm (A ++ B) = some (toks, ds)) :
    ∃ toks' ds', Lexer.scan lm (A ++ (b :: T') ++ B) = some (toks', ds') ∧
      toks'.map tokShape = toks.map tokShape ∧ ds'.map diagShape = ds.map diagShape := by
  unfold Lexer.scan at h ⊢
  -- the fuel `length + 1` of the longer text is at least the `f + 1` the lemma needs: scanning is monotone in fuel
  obtain ⟨t', d', h1, h2, h3⟩ := piece_after_step lm hlm b T' hb hlmb hT hat _ toks ds h
  obtain ⟨t2, d2, hfull⟩ := C09.scan_total lm hlm (A ++ (b :: T') ++ B)
  unfold Lexer.scan at hfull
  -- both runs succeed; a successful scan does not depend on the fuel
  obtain ⟨steps1, hs1, ht1, hd1⟩ := C09.scanLoop_scans lm hlm _ _ _ _ _ h1
  obtain ⟨steps2, hs2, ht2, hd2⟩ := C09.scanLoop_scans lm hlm _ _ _ _ _ hfull
  have hsame : steps1 = steps2 := Scans_unique hs1 hs2
  subst hsame
  exact ⟨t', d', by rw [hfull, ht2, hd2, ht1, hd1], h2, h3⟩

/-- in particular a complete block comment after any token other than `/` -/
theorem block_comment_insertion_after_token (lm : Char → Bool) (hlm : lm '\n' = false) (hlms : lm '/' = false)
    (r0 u rest0 : List Char) (hbc : blockComment r0 = (u, some rest0))
    (A B : List Char) (toks : List Token) (ds : List Diag)
    (hat : AfterStep lm (fun st => st.tok.isSome = true ∧ st.used ≠ ['/']) A B 1)
    (h : Lexer.scan lm (A ++ B) = some (toks, ds)) :
    ∃ toks' ds', Lexer.scan lm (A ++ ('/' :: '*' :: u) ++ B) = some (toks', ds') ∧
      toks'.map tokShape = toks.map tokShape ∧ ds'.map diagShape = ds.map diagShape := by
  have hat' : AfterStep lm (fun st => Closed '/' st ∧ (st.rest ≠ [] ∨ st.tok.isSome = true)) A B 1 :=
    hat.mono (fun st h3 => ⟨Or.inl ⟨h3.1, fun _ => h3.2⟩, Or.inr h3.1⟩)
  exact trivia_piece_insertion lm hlm '/' ('*' :: u) (by simp [isGap']) hlms A B toks ds
    (fun l => block_comment_step lm r0 u rest0 hbc B l) hat' h

/-- the one-step fact behind both: a scanning step looks at the unread text only through `Compat` -/
theorem step_ignores_unread_text (lm : Char → Bool) (c : Char) (r : List Char) (line : Nat) (st : Step)
    (h : scanToken lm (c :: r) line = some st) (hlive : st.rest ≠ [] ∨ st.tok.isSome = true)
    (Y : List Char) (hY : Compat lm c st.used Y) :
    scanToken lm (st.used ++ Y) line = some { st with rest := Y } := scanToken_swap lm c r line st h hlive Y hY

/-- non-vacuity: in `ab+1` the positions after `ab` and after `+` are each "after a token" -/
example :
    AfterToken (fun c => c.isAlpha) "ab".toList "+1".toList 1 ∧
    AfterToken (fun c => c.isAlpha) "ab+".toList "1".toList 1 := by
  have h1 : scanToken (fun c => c.isAlpha) "ab+1".toList 1 =
      some ⟨some ⟨.IDENTIFIER, "ab".toList, .none, 1⟩, none, "ab".toList, "+1".toList, 1⟩ := by rfl
  have h2 : scanToken (fun c => c.isAlpha) "+1".toList 1 =
      some ⟨some ⟨.PLUS, "+".toList, .none, 1⟩, none, "+".toList, "1".toList, 1⟩ := by rfl
  refine ⟨AfterToken.here h1 rfl rfl, ?_⟩
  exact AfterToken.later (A' := "+".toList) h1 rfl (by simp) (AfterToken.here h2 rfl rfl)

/-- (e) **redundant parentheses, at any depth**: wrapping any operand, argument, element, subscript, callee,
    receiver or assigned value of any enclosing expression in parentheses changes nothing — not the value, not the
    effects, not whether and how it fails — in every scope and store (from some step budget on); and so for the
    statements that print it, evaluate it, declare with it, return it or branch on it.
    (Object-literal initialisers, loop headers and bodies: `redundant_parentheses_whole_program` below.) -/
theorem redundant_parentheses_anywhere_in_an_expression (P : Platform) (C : Ctx) (e : Expr) (l : Nat) :
    EvEq P (C.plug (.grouping e l)) (C.plug e) ∧
    EvS P (.print (C.plug (.grouping e l))) (.print (C.plug e)) ∧
    EvS P (.expr (C.plug (.grouping e l))) (.expr (C.plug e)) ∧
    (∀ n dl, EvS P (.var ⟨n, dl, some (C.plug (.grouping e l))⟩) (.var ⟨n, dl, some (C.plug e)⟩)) ∧
    (∀ rl, EvS P (.returnS rl (some (C.plug (.grouping e l)))) (.returnS rl (some (C.plug e)))) ∧
    (∀ t el, EvS P (.ifS (C.plug (.grouping e l)) t el) (.ifS (C.plug e) t el)) :=
  have h := paren_anywhere P C e l
  ⟨h, evS_print P h, evS_expr P h, fun n dl => evS_var P n dl h, fun rl => evS_return P rl h, fun t el => evS_ifCond P t el h⟩

/-- the hypothesis is met by every expression, the contexts are not trivial: `f(1, (x))` and `f(1, x)` -/
example (P : Platform) : EvEq P (.call (.ident "f".toList 1) 1 [.literal (.num (F64.ofNat 1)) 1, .grouping (.ident "x".toList 1) 1])
    (.call (.ident "f".toList 1) 1 [.literal (.num (F64.ofNat 1)) 1, .ident "x".toList 1]) :=
  (redundant_parentheses_anywhere_in_an_expression P (.arg (.ident "f".toList 1) 1 [.literal (.num (F64.ofNat 1)) 1] .hole []) (.ident "x".toList 1) 1).1

/-- (e) **redundant parentheses, whole programs**: let `prog'` be `prog` with parentheses inserted around any
    sub-expressions anywhere in its top-level statements, blocks, branches, loop headers (initialiser, test,
    increment), loop bodies and object-literal initialisers, at any depth — anywhere except inside the bodies of
    the functions it declares (`ParenSs`).  Then, from some step budget on, interpreting `prog'` ends in
    exactly the state interpreting `prog` ends in: the same stdout, the same diagnostics in the same order, the same
    flags, the same unread input — or the same abnormal end.  (Loops are handled by induction on the budget at which
    the loop answers: `Lemmas/InterchangeLoop`.) -/
theorem redundant_parentheses_whole_program (P : Platform) (prog prog' : List Stmt) (h : ParenSs prog prog')
    (repl : Bool) (input : List Char) :
    ∃ F0, ∀ F, F0 ≤ F → interpret P F prog repl input = interpret P F prog' repl input :=
  interpret_paren P h repl input

/-- the relation is inhabited by non-trivial pairs: `যতক্ষণ (i < 3) { দেখাও i; }` and `যতক্ষণ ((i) < (3)) { দেখাও (i); }` -/
example : ParenSs
    [.whileS (.binary (.ident "i".toList 1) .LESS 1 (.literal (.num (F64.ofNat 3)) 1)) (.block [.print (.ident "i".toList 1)])]
    [.whileS (.binary (.grouping (.ident "i".toList 1) 1) .LESS 1 (.grouping (.literal (.num (F64.ofNat 3)) 1) 1))
      (.block [.print (.grouping (.ident "i".toList 1) 1)])] :=
  .cons (.whileS (.binary _ _ (.wrap 1 (.refl _)) (.wrap 1 (.refl _))) (.block (.cons (.print (.wrap 1 (.refl _))) .nil))) .nil

open Cli in
/-- (e) at the level of source texts and of everything `run` reports: if two texts pass the front end without a
    diagnostic and the tree of the second is the tree of the first with parentheses inserted (anywhere but inside
    function bodies), then from some step budget on `run` gives the same stdout, diagnostics, flags, unread input and
    event count for both -/
theorem redundant_parentheses_run (P : Platform) (src src' : List Char) (prog prog' : List Stmt)
    (h1 : (frontEnd P.lm src).abnormal = none ∧ (frontEnd P.lm src).diags = [] ∧ (frontEnd P.lm src).prog = some prog)
    (h2 : (frontEnd P.lm src').abnormal = none ∧ (frontEnd P.lm src').diags = [] ∧ (frontEnd P.lm src').prog = some prog')
    (h : ParenSs prog prog') (repl : Bool) (input : List Char) :
    ∃ F0, ∀ F, F0 ≤ F → run P F src repl input = run P F src' repl input := by
  obtain ⟨F0, h0⟩ := interpret_paren P h repl input
  refine ⟨F0, fun F hF => ?_⟩
  unfold run
  simp only [h1.1, h1.2.1, h1.2.2, h2.1, h2.2.1, h2.2.2, List.isEmpty_nil, Bool.not_true, Bool.false_eq_true, if_false, h0 F hF]

end Borno.Props.C18
