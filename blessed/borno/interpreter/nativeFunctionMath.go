package interpreter

import (
	"fmt"
	"math"
)

type NativeAbsFn struct{}

func (n NativeAbsFn) Call(i *Interpreter, arguments []interface{}) (interface{}, error) {
	if len(arguments) != 1 {
		return nil, fmt.Errorf("abs function expects exactly 1 argument")
	}

	number, err := toNumber(arguments[0])
	if err != nil {
		return nil, fmt.Errorf("argument must be a number")
	}

	return math.Abs(number), nil
}

func (n NativeAbsFn) Arity() int {
	return 1
}

func (n NativeAbsFn) String() string {
	return "<native fn abs>"
}

type NativeSqrtFn struct{}

func (n NativeSqrtFn) Call(i *Interpreter, arguments []interface{}) (interface{}, error) {
	if len(arguments) != 1 {
		return nil, fmt.Errorf("sqrt function expects exactly 1 argument")
	}

	number, err := toNumber(arguments[0])
	if err != nil {
		return nil, fmt.Errorf("argument must be a number")
	}

	return math.Sqrt(number), nil
}

func (n NativeSqrtFn) Arity() int {
	return 1
}

func (n NativeSqrtFn) String() string {
	return "<native fn sqrt>"
}

type NativePowFn struct{}

func (n NativePowFn) Call(i *Interpreter, arguments []interface{}) (interface{}, error) {
	if len(arguments) != 2 {
		return nil, fmt.Errorf("pow function expects exactly 2 arguments")
	}

	base, err := toNumber(arguments[0])
	if err != nil {
		return nil, fmt.Errorf("base must be a number")
	}

	exponent, err := toNumber(arguments[1])
	if err != nil {
		return nil, fmt.Errorf("exponent must be a number")
	}

	return math.Pow(base, exponent), nil
}

func (n NativePowFn) Arity() int {
	return 2
}

func (n NativePowFn) String() string {
	return "<native fn pow>"
}

type NativeSinFn struct{}

func (n NativeSinFn) Call(i *Interpreter, arguments []interface{}) (interface{}, error) {
	if len(arguments) != 1 {
		return nil, fmt.Errorf("sin function expects exactly 1 argument")
	}

	number, err := toNumber(arguments[0])
	if err != nil {
		return nil, fmt.Errorf("argument must be a number")
	}

	return math.Sin(number), nil
}

func (n NativeSinFn) Arity() int {
	return 1
}

func (n NativeSinFn) String() string {
	return "<native fn sin>"
}

type NativeCosFn struct{}

func (n NativeCosFn) Call(i *Interpreter, arguments []interface{}) (interface{}, error) {
	if len(arguments) != 1 {
		return nil, fmt.Errorf("cos function expects exactly 1 argument")
	}

	number, err := toNumber(arguments[0])
	if err != nil {
		return nil, fmt.Errorf("argument must be a number")
	}

	return math.Cos(number), nil
}

func (n NativeCosFn) Arity() int {
	return 1
}

func (n NativeCosFn) String() string {
	return "<native fn cos>"
}

type NativeTanFn struct{}

func (n NativeTanFn) Call(i *Interpreter, arguments []interface{}) (interface{}, error) {
	if len(arguments) != 1 {
		return nil, fmt.Errorf("tan function expects exactly 1 argument")
	}

	number, err := toNumber(arguments[0])
	if err != nil {
		return nil, fmt.Errorf("argument must be a number")
	}

	return math.Tan(number), nil
}

func (n NativeTanFn) Arity() int {
	return 1
}

func (n NativeTanFn) String() string {
	return "<native fn tan>"
}

// NativeMinFn defines the native `min` function for the interpreter.
type NativeMinFn struct{}

func (n NativeMinFn) Call(i *Interpreter, arguments []interface{}) (interface{}, error) {
	if len(arguments) == 0 {
		return nil, fmt.Errorf("min function expects at least 1 argument")
	}

	// Flatten arguments if the first argument is an array
	if array, ok := arguments[0].([]interface{}); ok && len(arguments) == 1 {
		arguments = array
	}

	if len(arguments) == 0 {
		return nil, fmt.Errorf("min function expects a non-empty array or list of arguments")
	}

	// Convert the first argument to a number
	minValue, err := toNumber(arguments[0])
	if err != nil {
		return nil, fmt.Errorf("all arguments must be numbers")
	}

	// Iterate over the remaining arguments
	for _, arg := range arguments[1:] {
		num, err := toNumber(arg)
		if err != nil {
			return nil, fmt.Errorf("all arguments must be numbers")
		}
		if num < minValue {
			minValue = num
		}
	}

	return minValue, nil
}

func (n NativeMinFn) Arity() int {
	return -1 // Variable number of arguments
}

func (n NativeMinFn) String() string {
	return "<native fn min>"
}

// NativeMaxFn defines the native `max` function for the interpreter.
type NativeMaxFn struct{}

func (n NativeMaxFn) Call(i *Interpreter, arguments []interface{}) (interface{}, error) {
	if len(arguments) == 0 {
		return nil, fmt.Errorf("max function expects at least 1 argument")
	}

	// Flatten arguments if the first argument is an array
	if array, ok := arguments[0].([]interface{}); ok && len(arguments) == 1 {
		arguments = array
	}

	if len(arguments) == 0 {
		return nil, fmt.Errorf("max function expects a non-empty array or list of arguments")
	}

	// Convert the first argument to a number
	maxValue, err := toNumber(arguments[0])
	if err != nil {
		return nil, fmt.Errorf("all arguments must be numbers")
	}

	// Iterate over the remaining arguments
	for _, arg := range arguments[1:] {
		num, err := toNumber(arg)
		if err != nil {
			return nil, fmt.Errorf("all arguments must be numbers")
		}
		if num > maxValue {
			maxValue = num
		}
	}

	return maxValue, nil
}

func (n NativeMaxFn) Arity() int {
	return -1 // Variable number of arguments
}

func (n NativeMaxFn) String() string {
	return "<native fn max>"
}

type NativeRoundFn struct{}

func (n NativeRoundFn) Call(i *Interpreter, arguments []interface{}) (interface{}, error) {
	if len(arguments) != 1 {
		return nil, fmt.Errorf("round function expects exactly 1 argument")
	}

	number, err := toNumber(arguments[0])
	if err != nil {
		return nil, fmt.Errorf("argument must be a number")
	}

	return math.Round(number), nil
}

func (n NativeRoundFn) Arity() int {
	return 1
}

func (n NativeRoundFn) String() string {
	return "<native fn round>"
}
