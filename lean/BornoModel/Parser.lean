import BornoModel.Ast
/-!
# Parser — model of `parser/parser.go`

Recursive descent over the token list (`peek` = head of the list; an empty list is the Go
index-out-of-range panic).  The eleven left-associative binary levels are one function
`binLevel k` driven by `Expect.ladder`.  All functions recurse on fuel, data in nested matches.
-/
namespace Borno.Parser
open Borno

/-- result of an expression-level parse -/
inductive PR (α : Type)
  | ok (a : α) (rest : List Token)
  | err (d : Diag)
  | abn (a : Abn)
  deriving Repr, Inhabited

/-- result of a statement-level parse; `ds` = diagnostics in order (lenient `consume`s report and go on) -/
inductive SR (α : Type)
  | ok (a : α) (rest : List Token) (ds : List Diag)
  | err (ds : List Diag)
  | abn (a : Abn)
  deriving Repr, Inhabited

def errAt (t : Token) (msg : List Char) : Diag :=
  .static t.line (if t.tt = .EOF then " at end".toList else " at '".toList ++ t.lexeme ++ ['\'']) msg

def litOf : Lit → LitVal
  | .none => .nil
  | .num x => .num x
  | .str s => .str s

def levelOps (k : Nat) : List TT :=
  match Expect.ladder[k]? with
  | some l => l.ops
  | none => []

def levelNode (k : Nat) : Expect.NodeKind :=
  match Expect.ladder[k]? with
  | some l => l.node
  | none => .binary

def mkBin (k : Nat) (l : Expr) (t : Token) (r : Expr) : Expr :=
  match levelNode k with
  | .logical => .logical l t.tt r
  | .binary => .binary l t.tt t.line r

def nLevels : Nat := Expect.ladder.length

mutual

/-- `expression` = `assignment` -/
def assignment : Nat → List Token → PR Expr
  | 0, _ => .abn .fuel
  | f + 1, ts =>
    match binLevel f 0 ts with
    | .ok e r =>
      (match r with
       | [] => .abn .panic
       | t :: r1 =>
         if t.tt = .EQUAL then
           (match assignment f r1 with
            | .ok v r2 =>
              (match e with
               | .ident n l => .ok (.assign n l v t.line) r2
               | .arrayAccess a i _ => .ok (.arrayAssign a i v t.line) r2
               | .propAccess o p _ => .ok (.propAssign o p v t.line) r2
               | _ => .err (errAt t "Invalid assignment target.".toList))
            | .err d => .err d
            | .abn x => .abn x)
         else .ok e r)
    | .err d => .err d
    | .abn x => .abn x

/-- level `k` of the ladder (`k = nLevels` is `unary`) -/
def binLevel : Nat → Nat → List Token → PR Expr
  | 0, _, _ => .abn .fuel
  | f + 1, k, ts =>
    if k < nLevels then
      match binLevel f (k + 1) ts with
      | .ok l r => binLoop f k l r
      | .err d => .err d
      | .abn x => .abn x
    else unary f ts

/-- `for p.match(ops…) { right := next(); expr = node(expr, op, right) }` -/
def binLoop : Nat → Nat → Expr → List Token → PR Expr
  | 0, _, _, _ => .abn .fuel
  | f + 1, k, l, ts =>
    match ts with
    | [] => .abn .panic
    | t :: r =>
      if (levelOps k).contains t.tt then
        match binLevel f (k + 1) r with
        | .ok right r2 => binLoop f k (mkBin k l t right) r2
        | .err d => .err d
        | .abn x => .abn x
      else .ok l ts

def unary : Nat → List Token → PR Expr
  | 0, _ => .abn .fuel
  | f + 1, ts =>
    match ts with
    | [] => .abn .panic
    | t :: r =>
      if Expect.unaryOps.contains t.tt then
        match unary f r with
        | .ok e r2 => .ok (.unary t.tt t.line e) r2
        | .err d => .err d
        | .abn x => .abn x
      else
        match primary f ts with
        | .ok e r2 => suffix f e r2
        | .err d => .err d
        | .abn x => .abn x

/-- the postfix loop of `call` -/
def suffix : Nat → Expr → List Token → PR Expr
  | 0, _, _ => .abn .fuel
  | f + 1, e, ts =>
    match ts with
    | [] => .abn .panic
    | t :: r =>
      if t.tt = .LEFT_PAREN then
        (match r with
         | [] => .abn .panic
         | t2 :: r2 =>
           if t2.tt = .RIGHT_PAREN then suffix f (.call e t2.line []) r2
           else
             match exprList f r with
             | .ok args r3 =>
               (match r3 with
                | [] => .abn .panic
                | t3 :: r4 =>
                  if t3.tt = .RIGHT_PAREN then suffix f (.call e t3.line args) r4
                  else .err (errAt t3 "Expect ')' after arguments.".toList))
             | .err d => .err d
             | .abn x => .abn x)
      else if t.tt = .LEFT_BRACKET then
        (match assignment f r with
         | .ok i r2 =>
           (match r2 with
            | [] => .abn .panic
            | t2 :: r3 =>
              if t2.tt = .RIGHT_BRACKET then suffix f (.arrayAccess e i t2.line) r3
              else .err (errAt t2 "Expect ']' after array index.".toList))
         | .err d => .err d
         | .abn x => .abn x)
      else if t.tt = .DOT then
        (match r with
         | [] => .abn .panic
         | t2 :: r2 =>
           if t2.tt = .IDENTIFIER then suffix f (.propAccess e t2.lexeme t2.line) r2
           else .err (errAt t2 "Expect property name after '.'.".toList))
      else .ok e ts

/-- `expression ("," expression)*` -/
def exprList : Nat → List Token → PR (List Expr)
  | 0, _ => .abn .fuel
  | f + 1, ts =>
    match assignment f ts with
    | .ok a r =>
      (match r with
       | [] => .abn .panic
       | t :: r2 =>
         if t.tt = .COMMA then
           match exprList f r2 with
           | .ok rest r3 => .ok (a :: rest) r3
           | .err d => .err d
           | .abn x => .abn x
         else .ok [a] r)
    | .err d => .err d
    | .abn x => .abn x

/-- the loop of `objectLiteral` (a trailing comma is accepted) -/
def objProps : Nat → List Token → PR (List (Name × Expr))
  | 0, _ => .abn .fuel
  | f + 1, ts =>
    match ts with
    | [] => .abn .panic
    | t :: r =>
      if t.tt = .RIGHT_BRACE || t.tt = .EOF then .ok [] ts
      else if t.tt ≠ .IDENTIFIER then .err (errAt t "Expect property name. Must be a string.".toList)
      else
        match r with
        | [] => .abn .panic
        | c :: r1 =>
          if c.tt ≠ .COLON then .err (errAt c "Expect ':' after property name.".toList)
          else
            match assignment f r1 with
            | .ok v r2 =>
              (match r2 with
               | [] => .abn .panic
               | t2 :: r3 =>
                 if t2.tt = .COMMA then
                   match objProps f r3 with
                   | .ok ps r4 => .ok ((t.lexeme, v) :: ps) r4
                   | .err d => .err d
                   | .abn x => .abn x
                 else .ok [(t.lexeme, v)] r2)
            | .err d => .err d
            | .abn x => .abn x

def primary : Nat → List Token → PR Expr
  | 0, _ => .abn .fuel
  | f + 1, ts =>
    match ts with
    | [] => .abn .panic
    | t :: r =>
      match t.tt with
      | .FALSE => .ok (.literal (.bool false) t.line) r
      | .TRUE => .ok (.literal (.bool true) t.line) r
      | .NIL => .ok (.literal .nil t.line) r
      | .NUMBER => .ok (.literal (litOf t.lit) t.line) r
      | .STRING => .ok (.literal (litOf t.lit) t.line) r
      | .IDENTIFIER => .ok (.ident t.lexeme t.line) r
      | .LEFT_PAREN =>
        (match assignment f r with
         | .ok e r2 =>
           (match r2 with
            | [] => .abn .panic
            | t2 :: r3 =>
              if t2.tt = .RIGHT_PAREN then .ok (.grouping e t2.line) r3
              else .err (errAt t2 "Expect ')' after expression.".toList))
         | .err d => .err d
         | .abn x => .abn x)
      | .LEFT_BRACKET =>
        (match r with
         | [] => .abn .panic
         | t2 :: r2 =>
           if t2.tt = .RIGHT_BRACKET then .ok (.arrayLit []) r2
           else
             match exprList f r with
             | .ok es r3 =>
               (match r3 with
                | [] => .abn .panic
                | t3 :: r4 =>
                  if t3.tt = .RIGHT_BRACKET then .ok (.arrayLit es) r4
                  else .err (errAt t3 "Expect ']' after array elements.".toList))
             | .err d => .err d
             | .abn x => .abn x)
      | .LEFT_BRACE =>
        (match objProps f r with
         | .ok ps r2 =>
           (match r2 with
            | [] => .abn .panic
            | t2 :: r3 =>
              if t2.tt = .RIGHT_BRACE then .ok (.objectLit ps) r3
              else .err (errAt t2 "Expect '}' after object literal.".toList))
         | .err d => .err d
         | .abn x => .abn x)
      | _ => .err (errAt t "Unexpected token. Expect expression.".toList)

end

/-! ## statements -/

def isReserved (n : Name) : Bool := Expect.reserved.contains n

def reservedMsg (n : Name) (what : String) : List Char :=
  ['\''] ++ n ++ ("' is a reserved identifier and cannot be used as a " ++ what ++ " name.").toList

def isLiteralInit : Option Expr → Bool
  | some (.objectLit _) => true
  | some (.arrayLit _) => true
  | _ => false

/-- the loop of `varDeclaration` -/
def varDecls : Nat → Nat → List Token → PR (List VarDecl)
  | 0, _, _ => .abn .fuel
  | f + 1, initialLine, ts =>
    match ts with
    | [] => .abn .panic
    | t :: r =>
      if t.tt ≠ .IDENTIFIER then .err (errAt t "Expect variable name.".toList)
      else if isReserved t.lexeme then .err (errAt t (reservedMsg t.lexeme "variable"))
      else
        -- optional initializer
        let afterInit : PR (Option Expr) :=
          match r with
          | [] => .abn .panic
          | e :: r1 =>
            if e.tt = .EQUAL then
              match assignment f r1 with
              | .ok v r2 => .ok (some v) r2
              | .err d => .err d
              | .abn x => .abn x
            else .ok none r
        match afterInit with
        | .ok init r2 =>
          (match r2 with
           | [] => .abn .panic
           | p :: r3 =>
             if !isLiteralInit init && p.line ≠ initialLine then
               .err (errAt p "Expect ';' before newline.".toList)
             else if p.tt = .COMMA then
               match varDecls f initialLine r3 with
               | .ok rest r4 => .ok (⟨t.lexeme, t.line, init⟩ :: rest) r4
               | .err d => .err d
               | .abn x => .abn x
             else .ok [⟨t.lexeme, t.line, init⟩] r2)
        | .err d => .err d
        | .abn x => .abn x

/-- `varDeclaration` (after the `ধরি` token) -/
def varDeclaration (f : Nat) (ts : List Token) : SR Stmt :=
  match ts with
  | [] => .abn .panic
  | t0 :: _ =>
    match varDecls f t0.line ts with
    | .ok ds r =>
      (match r with
       | [] => .abn .panic
       | s :: r2 =>
         if s.tt = .SEMICOLON then
           match ds with
           | [d] => .ok (.var d) r2 []
           | _ => .ok (.varList ds) r2 []
         else .err [errAt s "Expect ';' after variable declaration.".toList])
    | .err d => .err [d]
    | .abn x => .abn x

/-- lenient `p.consume(tt, msg)`: on a mismatch report and stay -/
def lenient (tt : TT) (msg : String) (ts : List Token) : Option (List Token × List Diag) :=
  match ts with
  | [] => none
  | t :: r => if t.tt = tt then some (r, []) else some (ts, [errAt t msg.toList])

/-- `expressionStatement` / `printStatement` -/
def exprThenSemi (f : Nat) (mk : Expr → Stmt) (ts : List Token) : SR Stmt :=
  match assignment f ts with
  | .ok e r =>
    (match lenient .SEMICOLON "Expect ';' after value." r with
     | none => .abn .panic
     | some (r2, ds) => .ok (mk e) r2 ds)
  | .err d => .err [d]
  | .abn x => .abn x

/-- parameter list loop of `function` -/
def params : Nat → Nat → List Token → PR (List Name)
  | 0, _, _ => .abn .fuel
  | f + 1, n, ts =>
    match ts with
    | [] => .abn .panic
    | t :: r =>
      if n ≥ Expect.maxParams then .err (errAt t "Can't have more than 255 parameters.".toList)
      else if t.tt ≠ .IDENTIFIER then .err (errAt t "Expect parameter name.".toList)
      else
        match r with
        | [] => .abn .panic
        | c :: r2 =>
          if c.tt = .COMMA then
            match params f (n + 1) r2 with
            | .ok rest r3 => .ok (t.lexeme :: rest) r3
            | .err d => .err d
            | .abn x => .abn x
          else .ok [t.lexeme] r

/-- strict consume helper for statement level -/
def expectTok (tt : TT) (msg : String) (ts : List Token) : PR Unit :=
  match ts with
  | [] => .abn .panic
  | t :: r => if t.tt = tt then .ok () r else .err (errAt t msg.toList)

mutual

def declaration : Nat → List Token → SR Stmt
  | 0, _ => .abn .fuel
  | f + 1, ts =>
    match ts with
    | [] => .abn .panic
    | t :: r =>
      if t.tt = .FUN then function f r
      else if t.tt = .VAR then varDeclaration f r
      else statement f ts

def function : Nat → List Token → SR Stmt
  | 0, _ => .abn .fuel
  | f + 1, ts =>
    match ts with
    | [] => .abn .panic
    | t :: r =>
      if t.tt ≠ .IDENTIFIER then .err [errAt t "Expect function name.".toList]
      else if isReserved t.lexeme then .err [errAt t (reservedMsg t.lexeme "function")]
      else
        match expectTok .LEFT_PAREN "Expect '(' after function name." r with
        | .ok _ r1 =>
          let ps : PR (List Name) :=
            match r1 with
            | [] => .abn .panic
            | p :: _ => if p.tt = .RIGHT_PAREN then .ok [] r1 else params f 0 r1
          (match ps with
           | .ok names r2 =>
             (match expectTok .RIGHT_PAREN "Expect ')' after parameters." r2 with
              | .ok _ r3 =>
                (match expectTok .LEFT_BRACE "Expect '{' before function body." r3 with
                 | .ok _ r4 =>
                   (match block f r4 with
                    | .ok body r5 ds => .ok (.funS t.lexeme names body) r5 ds
                    | .err ds => .err ds
                    | .abn x => .abn x)
                 | .err d => .err [d]
                 | .abn x => .abn x)
              | .err d => .err [d]
              | .abn x => .abn x)
           | .err d => .err [d]
           | .abn x => .abn x)
        | .err d => .err [d]
        | .abn x => .abn x

/-- `block` (after `{`): declarations up to `}` or EOF, then a lenient `}` -/
def block : Nat → List Token → SR (List Stmt)
  | 0, _ => .abn .fuel
  | f + 1, ts =>
    match ts with
    | [] => .abn .panic
    | t :: r =>
      if t.tt = .RIGHT_BRACE then .ok [] r []
      else if t.tt = .EOF then .ok [] ts [errAt t "Expect '}' after block.".toList]
      else
        match declaration f ts with
        | .ok s r1 ds1 =>
          (match block f r1 with
           | .ok ss r2 ds2 => .ok (s :: ss) r2 (ds1 ++ ds2)
           | .err ds2 => .err (ds1 ++ ds2)
           | .abn x => .abn x)
        | .err ds => .err ds
        | .abn x => .abn x

def statement : Nat → List Token → SR Stmt
  | 0, _ => .abn .fuel
  | f + 1, ts =>
    match ts with
    | [] => .abn .panic
    | t :: r =>
      match t.tt with
      | .IF =>
        (match expectTok .LEFT_PAREN "Expect '(' after 'if'." r with
         | .ok _ r1 =>
           (match assignment f r1 with
            | .ok c r2 =>
              (match expectTok .RIGHT_PAREN "Expect ')' after if condition." r2 with
               | .ok _ r3 =>
                 (match statement f r3 with
                  | .ok th r4 ds1 =>
                    (match r4 with
                     | [] => .abn .panic
                     | e :: r5 =>
                       if e.tt = .ELSE then
                         match statement f r5 with
                         | .ok el r6 ds2 => .ok (.ifS c th (some el)) r6 (ds1 ++ ds2)
                         | .err ds2 => .err (ds1 ++ ds2)
                         | .abn x => .abn x
                       else .ok (.ifS c th none) r4 ds1)
                  | .err ds => .err ds
                  | .abn x => .abn x)
               | .err d => .err [d]
               | .abn x => .abn x)
            | .err d => .err [d]
            | .abn x => .abn x)
         | .err d => .err [d]
         | .abn x => .abn x)
      | .WHILE =>
        (match expectTok .LEFT_PAREN "Expect '(' after 'while'." r with
         | .ok _ r1 =>
           (match assignment f r1 with
            | .ok c r2 =>
              (match expectTok .RIGHT_PAREN "Expect ')' after condition." r2 with
               | .ok _ r3 =>
                 (match statement f r3 with
                  | .ok b r4 ds => .ok (.whileS c b) r4 ds
                  | .err ds => .err ds
                  | .abn x => .abn x)
               | .err d => .err [d]
               | .abn x => .abn x)
            | .err d => .err [d]
            | .abn x => .abn x)
         | .err d => .err [d]
         | .abn x => .abn x)
      | .FOR =>
        (match expectTok .LEFT_PAREN "Expect '(' after 'for'." r with
         | .ok _ r1 =>
           -- initializer
           let ini : SR (Option Stmt) :=
             match r1 with
             | [] => .abn .panic
             | i :: r2 =>
               if i.tt = .SEMICOLON then .ok none r2 []
               else if i.tt = .VAR then
                 match varDeclaration f r2 with
                 | .ok s r3 ds => .ok (some s) r3 ds
                 | .err ds => .err ds
                 | .abn x => .abn x
               else
                 match exprThenSemi f .expr r1 with
                 | .ok s r3 ds => .ok (some s) r3 ds
                 | .err ds => .err ds
                 | .abn x => .abn x
           (match ini with
            | .ok init r3 ds0 =>
              -- condition
              let cnd : PR (Option Expr) :=
                match r3 with
                | [] => .abn .panic
                | c :: _ =>
                  if c.tt = .SEMICOLON then .ok none r3
                  else
                    match assignment f r3 with
                    | .ok e r4 => .ok (some e) r4
                    | .err d => .err d
                    | .abn x => .abn x
              (match cnd with
               | .ok cond r4 =>
                 (match expectTok .SEMICOLON "Expect ';' after loop condition." r4 with
                  | .ok _ r5 =>
                    let inc : PR (Option Expr) :=
                      match r5 with
                      | [] => .abn .panic
                      | c :: _ =>
                        if c.tt = .RIGHT_PAREN then .ok none r5
                        else
                          match assignment f r5 with
                          | .ok e r6 => .ok (some e) r6
                          | .err d => .err d
                          | .abn x => .abn x
                    (match inc with
                     | .ok incr r6 =>
                       (match expectTok .RIGHT_PAREN "Expect ')' after for clauses." r6 with
                        | .ok _ r7 =>
                          (match statement f r7 with
                           | .ok body r8 ds1 =>
                             .ok (.forS init (cond.getD (.literal (.bool true) 0)) incr body) r8 (ds0 ++ ds1)
                           | .err ds1 => .err (ds0 ++ ds1)
                           | .abn x => .abn x)
                        | .err d => .err (ds0 ++ [d])
                        | .abn x => .abn x)
                     | .err d => .err (ds0 ++ [d])
                     | .abn x => .abn x)
                  | .err d => .err (ds0 ++ [d])
                  | .abn x => .abn x)
               | .err d => .err (ds0 ++ [d])
               | .abn x => .abn x)
            | .err ds => .err ds
            | .abn x => .abn x)
         | .err d => .err [d]
         | .abn x => .abn x)
      | .PRINT => exprThenSemi f .print r
      | .RETURN =>
        (match r with
         | [] => .abn .panic
         | s :: r1 =>
           if s.tt = .SEMICOLON then .ok (.returnS t.line none) r1 []
           else
             match assignment f r with
             | .ok v r2 =>
               (match expectTok .SEMICOLON "Expect ';' after return value." r2 with
                | .ok _ r3 => .ok (.returnS t.line (some v)) r3 []
                | .err d => .err [d]
                | .abn x => .abn x)
             | .err d => .err [d]
             | .abn x => .abn x)
      | .BREAK =>
        (match r with
         | [] => .abn .panic
         | s :: r1 =>
           if s.tt = .SEMICOLON then .ok (.breakS s.line) r1 []
           else .err [errAt s "Expected ; after break.".toList])
      | .CONTINUE =>
        (match r with
         | [] => .abn .panic
         | s :: r1 =>
           if s.tt = .SEMICOLON then .ok (.continueS s.line) r1 []
           else .err [errAt s "Expected ; after continue.".toList])
      | .LEFT_BRACE =>
        (match block f r with
         | .ok ss r1 ds => .ok (.block ss) r1 ds
         | .err ds => .err ds
         | .abn x => .abn x)
      | _ => exprThenSemi f .expr ts

end

/-- `Parse`: declarations until EOF; the first error return aborts -/
def program : Nat → List Token → SR (List Stmt)
  | 0, _ => .abn .fuel
  | f + 1, ts =>
    match ts with
    | [] => .abn .panic
    | t :: _ =>
      if t.tt = .EOF then .ok [] ts []
      else
        match declaration f ts with
        | .ok s r ds1 =>
          (match program f r with
           | .ok ss r2 ds2 => .ok (s :: ss) r2 (ds1 ++ ds2)
           | .err ds2 => .err (ds1 ++ ds2)
           | .abn x => .abn x)
        | .err ds => .err ds
        | .abn x => .abn x

def fuelFor (ts : List Token) : Nat := 40 * (ts.length + 2)

def parse (ts : List Token) : SR (List Stmt) := program (fuelFor ts) ts

end Borno.Parser
