import BornoModel.Eval
import BornoModel.Lemmas.Signals
/-! # C05 — branches and loops run exactly the arms and iterations their conditions dictate -/
namespace Borno.Props.C05
open Borno

section
variable (P : Platform)

/-- `যদি/নাহয়` runs exactly one arm, or none, chosen by the truthiness of its condition -/
theorem if_runs_exactly_one_arm (f : Nat) (c : Expr) (t : Stmt) (e : Option Stmt) (env : Nat) (repl : Bool)
    (σ σ1 : Store) (cv : Val) (h0 : σ.hadError = false) (hc : evalE P f c env repl σ = .ok (cv, .none) σ1) :
    evalS P (f + 1) (.ifS c t e) env repl σ =
      if truthy cv then
        (match evalS P f t env repl σ1 with
         | .ok (_, sig) σ2 => .ok (.nil, sig) σ2
         | .abn x => .abn x)
      else
        (match e with
         | some el =>
           (match evalS P f el env repl σ1 with
            | .ok (_, sig) σ2 => .ok (.nil, sig) σ2
            | .abn x => .abn x)
         | none => .ok (.nil, .none) σ1) := by
  rw [evalS]; simp only [guardErr, ER.seq, Res.bind, h0, hc]
  cases truthy cv <;> simp [nilOk]
  · cases e <;> simp
    rename_i el
    cases evalS P f el env repl σ1 with
    | ok p σ2 => cases p; rfl
    | abn x => rfl
  · cases evalS P f t env repl σ1 with
    | ok p σ2 => cases p; rfl
    | abn x => rfl

/-- `যতক্ষণ`: a falsy condition ends the loop; otherwise the body runs and then the whole loop again
    (break leaves this loop only, continue goes on to the next test, return leaves the function) -/
theorem while_unfold (f : Nat) (c : Expr) (b : Stmt) (env : Nat) (repl : Bool) (σ σ1 : Store) (cv : Val)
    (hc : evalE P f c env repl σ = .ok (cv, .none) σ1) :
    whileLoop P (f + 1) c b env repl σ =
      if truthy cv then
        (match evalS P f b env repl σ1 with
         | .ok (_, .brk _) σ2 => .ok (.nil, .none) σ2
         | .ok (_, .ret l v) σ2 => .ok (.nil, .ret l v) σ2
         | .ok (_, .cont _) σ2 => whileLoop P f c b env repl σ2
         | .ok (_, .none) σ2 => whileLoop P f c b env repl σ2
         | .abn x => .abn x)
      else .ok (.nil, .none) σ1 := by
  rw [whileLoop]; simp only [guardErr, ER.seq, Res.bind, hc]
  cases truthy cv <;> simp [nilOk]
  cases evalS P f b env repl σ1 with
  | abn x => rfl
  | ok p σ2 => obtain ⟨v, sig⟩ := p; cases sig <;> rfl

/-- `ফর`: condition, body, increment, in that order; continue still runs the increment; break does not -/
theorem for_unfold (f : Nat) (c ie : Expr) (b : Stmt) (env : Nat) (repl : Bool) (σ σ1 σ2 : Store) (cv bv : Val) (sig : Signal)
    (hc : evalE P f c env repl σ = .ok (cv, .none) σ1) (ht : truthy cv = true)
    (hb : evalS P f b env repl σ1 = .ok (bv, sig) σ2) :
    forLoop P (f + 1) c (some ie) b env repl σ =
      match sig with
      | .brk _ => .ok (.nil, .none) σ2
      | .ret l v => .ok (.nil, .ret l v) σ2
      | _ =>
        (match evalE P f ie env repl σ2 with
         | .ok (_, sig3) σ3 => if sig3 ≠ .none then .ok (.nil, sig3) σ3 else forLoop P f c (some ie) b env repl σ3
         | .abn x => .abn x) := by
  rw [forLoop]; simp only [guardErr, ER.seq, Res.bind, hc, hb]
  simp [ht]
  cases sig <;> simp [nilOk]
  all_goals
    cases evalE P f ie env repl σ2 with
    | abn x => rfl
    | ok p σ3 => obtain ⟨v, s3⟩ := p; rfl

/-- a falsy condition stops the `ফর` loop before the body or the increment run again -/
theorem for_stops_on_falsy (f : Nat) (c : Expr) (inc : Option Expr) (b : Stmt) (env : Nat) (repl : Bool) (σ σ1 : Store) (cv : Val)
    (hc : evalE P f c env repl σ = .ok (cv, .none) σ1) (ht : truthy cv = false) :
    forLoop P (f + 1) c inc b env repl σ = .ok (.nil, .none) σ1 := by
  rw [forLoop]; simp only [guardErr, ER.seq, Res.bind, hc]; simp [guardErr, ER.seq, Res.bind, ht, nilOk]

/-- the initializer runs once, in the loop's own fresh scope, before the first test -/
theorem for_initializer_once (f : Nat) (i : Stmt) (c : Option Expr) (inc : Option Expr) (b : Stmt) (env : Nat) (repl : Bool)
    (σ σ2 : Store) (v : Val) (h0 : σ.hadError = false)
    (hi : evalS P f i σ.envs.length repl (σ.newEnv (some env)).1 = .ok (v, .none) σ2) :
    evalS P (f + 1) (.forS (some i) c inc b) env repl σ = forLoop P f (forCond c) inc b σ.envs.length repl σ2 := by
  rw [evalS]; simp only [guardErr, ER.seq, Res.bind, h0]
  simp [Store.newEnv] at hi ⊢
  simp [hi]

/-- a `থামো`, `চালিয়ে_যাও` or `ফেরত` that reaches the top level is reported as a runtime error on its own line -/
theorem toplevel_signal_is_error (f : Nat) (s : Stmt) (ss : List Stmt) (env : Nat) (repl : Bool) (σ σ1 : Store) (v : Val) (sig : Signal)
    (hs : evalS P f s env repl σ = .ok (v, sig) σ1) (hsig : sig ≠ .none) :
    ∃ msg line, interpretLoop P (f + 1) (s :: ss) env repl σ = .ok () (σ1.rte msg line) ∧
      (sig = .brk line ∨ sig = .cont line ∨ ∃ x, sig = .ret line x) := by
  rw [interpretLoop]; simp only [guardErr, ER.seq, Res.bind, hs]
  cases sig with
  | none => exact absurd rfl hsig
  | brk l => exact ⟨_, l, rfl, Or.inl rfl⟩
  | cont l => exact ⟨_, l, rfl, Or.inr (Or.inl rfl)⟩
  | ret l x => exact ⟨_, l, rfl, Or.inr (Or.inr ⟨x, rfl⟩)⟩

/-- break and continue are signals carrying their line; a block passes them up untouched -/
theorem break_continue_signals (f : Nat) (line env : Nat) (repl : Bool) (σ : Store) (h0 : σ.hadError = false) :
    evalS P (f + 1) (.breakS line) env repl σ = .ok (.nil, .brk line) σ ∧
    evalS P (f + 1) (.continueS line) env repl σ = .ok (.nil, .cont line) σ := by
  constructor <;> (rw [evalS]; simp [guardErr, ER.seq, Res.bind, h0])

/-- evaluating an expression — a condition, an increment, an argument, a call — never yields a
    `break`, `continue` or `return` signal: calls absorb `return`, built-ins yield none -/
theorem expressions_raise_no_signal (f : Nat) (e : Expr) (env : Nat) (repl : Bool) (σ σ' : Store) (v : Val) (sig : Signal)
    (h : evalE P f e env repl σ = .ok (v, sig) σ') : sig = .none :=
  evalE_noSig P f e env repl σ (v, sig) σ' h

/-- **`থামো` and `চালিয়ে_যাও` leave only the innermost enclosing loop**: whatever the body does, what
    leaves a `যতক্ষণ` statement or a `ফর` loop is no signal, or a `return` on its way to the call —
    never a `break` or `continue`, which therefore cannot reach an outer loop -/
theorem loops_absorb_break_and_continue (f : Nat) (c : Expr) (inc : Option Expr) (b : Stmt) (env : Nat) (repl : Bool)
    (σ σ' : Store) (v : Val) (sig : Signal) :
    (evalS P f (.whileS c b) env repl σ = .ok (v, sig) σ' → sig = .none ∨ ∃ l x, sig = .ret l x) ∧
    (forLoop P f c inc b env repl σ = .ok (v, sig) σ' → sig = .none ∨ ∃ l x, sig = .ret l x) := by
  constructor
  · intro h
    cases f with
    | zero => rw [evalS] at h; cases h
    | succ f =>
      rw [evalS] at h
      unfold guardErr at h
      split at h
      · cases h; exact Or.inl rfl
      · exact whileLoop_sig P f c b env repl σ (v, sig) σ' h
  · intro h; exact forLoop_sig P f c inc b env repl σ (v, sig) σ' h

/-- a `ফর` statement without a condition runs as if its condition were the literal `true` -/
theorem for_missing_condition_true : forCond none = .literal (.bool true) 0 ∧ ∀ e, forCond (some e) = e := ⟨rfl, fun _ => rfl⟩

end
end Borno.Props.C05
